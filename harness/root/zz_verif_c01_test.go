//go:build verif

package mimetype

import (
	"bytes"
	"fmt"
	"runtime/debug"
	"strings"
	"testing"
	"time"

	"github.com/gabriel-vasile/mimetype/internal/charset"
	ijson "github.com/gabriel-vasile/mimetype/internal/json"
	"pgregory.net/rapid"
)

// C01 — detection never crashes and always answers.
//
// For a case (x, limit): every registered signature check is called directly with the examined
// header (exact-capacity copy, so a reslice beyond len panics) and with the full input, the three
// charset sniffers and the JSON scanner with every query are called on the header, and the three
// entry points are called; everything must return normally and results must be non-nil.
// A panic is caught (recover) and reported with the case; a fatal runtime error kills the
// shard, whose journal (the case being executed) then becomes the replay file.

type c01Case struct {
	X     vfB    `json:"x"`
	Limit uint32 `json:"limit"`
	File  bool   `json:"file"`
	// Prime: a reader detection under PrevLimit runs immediately before (a two-step history in
	// one self-contained case: whatever per-call state survives a call meets a different limit)
	Prime     bool   `json:"prime,omitempty"`
	PrevLimit uint32 `json:"prev_limit,omitempty"`
}

const c01MaxReaderLimit = 16 << 20

var c01Nodes []*MIME

func c01Check(c c01Case) vfResult {
	if c01Nodes == nil {
		c01Nodes = root.flatten()
	}
	x := []byte(c.X)
	vfJournal("C01", "gen", c)
	defer vfWatchdog("C01", "gen", c, 40*time.Second)()
	h := vfExact(vfHeader(x, c.Limit))
	xe := vfExact(x)
	var r vfResult
	accepted := 0
	for _, n := range c01Nodes {
		if n.detector(h, c.Limit) && n != root {
			accepted++
		}
		if len(xe) != len(h) {
			n.detector(xe, c.Limit)
		}
	}
	_ = charset.FromPlain(h)
	_ = charset.FromHTML(h)
	_ = charset.FromXML(h)
	for _, q := range []string{ijson.QueryNone, ijson.QueryGeo, ijson.QueryHAR, ijson.QueryGLTF} {
		parsed, inspected, _, _ := ijson.Parse(q, h)
		if parsed < 0 || parsed > len(h) || inspected < 0 || inspected > len(h) {
			r.Err = fmt.Errorf("json.Parse(%s) reports parsed=%d inspected=%d for a %d-byte input %s", q, parsed, inspected, len(h), vfQ(h))
			return r
		}
	}
	defer SetLimit(defaultLimit)
	if c.Prime && (c.PrevLimit == 0 || c.PrevLimit <= c01MaxReaderLimit) {
		SetLimit(c.PrevLimit)
		if pm, err := DetectReader(bytes.NewReader(xe[:min(len(xe), 96)])); pm == nil || err != nil {
			r.Err = fmt.Errorf("priming DetectReader under limit %d returned (%v, %v)", c.PrevLimit, pm, err)
			return r
		}
		r.Labels = append(r.Labels, "primed")
	}
	SetLimit(c.Limit)
	m := Detect(xe)
	if m == nil {
		r.Err = fmt.Errorf("Detect returned nil")
		return r
	}
	_, _, _ = m.String(), m.Extension(), m.Parent()
	if c.Limit == 0 || c.Limit <= c01MaxReaderLimit {
		mr, err := DetectReader(bytes.NewReader(xe))
		if mr == nil || err != nil {
			r.Err = fmt.Errorf("DetectReader returned (%v, %v)", mr, err)
			return r
		}
		if c.File {
			p := vfWriteFile("c01", x, vfHash(x))
			mf, err := DetectFile(p)
			if mf == nil || err != nil {
				r.Err = fmt.Errorf("DetectFile returned (%v, %v)", mf, err)
				return r
			}
			r.Labels = append(r.Labels, "file")
		}
	} else {
		r.Labels = append(r.Labels, "reader-skipped-limit>16MiB")
	}
	truncated := c.Limit > 0 && int64(c.Limit) <= int64(len(x))
	r.Nontrivial = accepted > 0 || truncated
	if truncated {
		r.Labels = append(r.Labels, "truncated-branch")
	}
	if accepted > 0 {
		r.Labels = append(r.Labels, "some-detector-accepts")
	}
	r.Hash = vfHash(x, vfHashU(uint64(c.Limit)))
	return r
}

func c01Gen(t *rapid.T) c01Case {
	var x []byte
	switch rapid.IntRange(0, 9).Draw(t, "k") {
	case 9: // subtitle-shaped text: a counter line, then a line of two time stamps around an arrow, in every length and spelling
		ts := func(l string) string {
			return rapid.SampledFrom([]string{"00:02:16,612", "00:02:16", "0:02:16,61", "00:02:16,6120000", "00:02:16.612", "1:2:3", "00:02", "00:02:16,3760000", "000:02:16,612", "", "::", "00:02:16,", "99:99:99,999", "00;02;16,612"}).Draw(t, l)
		}
		first := rapid.SampledFrom([]string{"1", "1", "\xef\xbb\xbf1", "0", "12", " 1", "1 ", "WEBVTT\n\n1"}).Draw(t, "counter")
		arrow := rapid.SampledFrom([]string{" --> ", " --> ", "-->", " -->", "--> ", " -> ", "  -->  "}).Draw(t, "arrow")
		nl := rapid.SampledFrom([]string{"\n", "\r\n"}).Draw(t, "snl")
		x = []byte(first + nl + ts("t1") + arrow + ts("t2") + rapid.SampledFrom([]string{"", " X1:40 X2:600", "\t"}).Draw(t, "cue") + nl + rapid.SampledFrom([]string{"x", "Hello", ""}).Draw(t, "text") + nl)
		if rapid.Bool().Draw(t, "mut") {
			x = vfMutate(t, x, 2)
		}
	case 8: // a tar archive (long GNU / PAX names included), whole or cut anywhere after its first block
		x, _ = c18GenArchive(t)
		if rapid.Bool().Draw(t, "cutarchive") && len(x) > 512 {
			x = x[:rapid.IntRange(512, len(x)).Draw(t, "cutat")]
		}
	case 0:
		x = rapid.SliceOfN(rapid.Byte(), 0, 64).Draw(t, "rand")
	case 1, 2, 3:
		x = vfMutate(t, vfGenSeed(t), 5)
	case 4:
		x = c01Structured(t)
	case 5:
		x = vfMutate(t, []byte(vfGenTextish(t)), 3)
	case 6:
		if rapid.Bool().Draw(t, "xml") {
			x = []byte(c12GenXML(t).Doc)
		} else {
			x = []byte(c12GenHTML(t).Doc)
		}
		x = vfMutate(t, x, 2)
	default:
		x = vfGenAnyInput(t)
	}
	c := c01Case{X: x, Limit: vfGenLimit(t, len(x)), File: rapid.IntRange(0, 15).Draw(t, "file") == 0}
	if rapid.Bool().Draw(t, "prime") {
		c.Prime = true
		c.PrevLimit = rapid.SampledFrom([]uint32{0, 1, 2, 16, 64, 512, 3072, 4096, 1 << 16, 1 << 20}).Draw(t, "prevlimit")
	}
	return c
}

// c01Structured builds headers for the detectors that read attacker-controlled lengths.
func c01Structured(t *rapid.T) []byte {
	u32 := func(label string) uint32 {
		switch rapid.IntRange(0, 5).Draw(t, label+"h") {
		case 0, 1:
			return rapid.SampledFrom(vfHostile).Draw(t, label)
		case 2: // header size + v wraps around to (almost) nothing
			return -uint32(rapid.IntRange(1, 64).Draw(t, label+"neg"))
		case 3:
			return uint32(rapid.IntRange(0, 70).Draw(t, label+"tiny"))
		}
		return uint32(rapid.IntRange(0, 600).Draw(t, label+"s"))
	}
	be := func(v uint32) []byte { return []byte{byte(v >> 24), byte(v >> 16), byte(v >> 8), byte(v)} }
	le := func(v uint32) []byte { return []byte{byte(v), byte(v >> 8), byte(v >> 16), byte(v >> 24)} }
	switch rapid.IntRange(0, 5).Draw(t, "sk") {
	case 5: // chunk lists (PNG, MP4 boxes, RIFF, IFF) whose declared lengths are hostile
		var b []byte
		n := rapid.IntRange(1, 5).Draw(t, "nchunks")
		switch rapid.IntRange(0, 3).Draw(t, "ck") {
		case 0:
			b = append(b, "\x89PNG\r\n\x1a\n\x00\x00\x00\x0dIHDR\x00\x00\x00\x10\x00\x00\x00\x10\x08\x06\x00\x00\x00\x1f\xf3\xffa"...)
			for i := 0; i < n; i++ {
				b = append(b, be(u32("clen"))...)
				b = append(b, rapid.SampledFrom([]string{"acTL", "IDAT", "IEND", "tEXt", "pHYs", "iCCP", "fcTL", "zzzz"}).Draw(t, "ctype")...)
				b = append(b, rapid.SliceOfN(rapid.Byte(), 0, 24).Draw(t, "cdata")...)
			}
		case 1:
			b = append(b, "\x00\x00\x00\x18ftyp"...)
			b = append(b, rapid.SampledFrom([]string{"avif", "3gp4", "M4A ", "qt  ", "heic", "isom", "mj2s", "crx "}).Draw(t, "brand")...)
			b = append(b, "\x00\x00\x02\x00isommp41"...)
			for i := 0; i < n; i++ {
				b = append(b, be(u32("boxlen"))...)
				b = append(b, rapid.SampledFrom([]string{"moov", "mdat", "free", "meta", "uuid", "jp2h", "wide"}).Draw(t, "box")...)
				b = append(b, rapid.SliceOfN(rapid.Byte(), 0, 24).Draw(t, "bdata")...)
			}
		case 2:
			b = append(b, "RIFF"...)
			b = append(b, le(u32("riffsize"))...)
			b = append(b, rapid.SampledFrom([]string{"WEBP", "WAVE", "AVI ", "QLCM", "ACON"}).Draw(t, "form")...)
			for i := 0; i < n; i++ {
				b = append(b, rapid.SampledFrom([]string{"fmt ", "data", "LIST", "VP8 ", "VP8X", "anih", "JUNK"}).Draw(t, "rck")...)
				b = append(b, le(u32("rlen"))...)
				b = append(b, rapid.SliceOfN(rapid.Byte(), 0, 24).Draw(t, "rdata")...)
			}
		default:
			b = append(b, "FORM"...)
			b = append(b, be(u32("formsize"))...)
			b = append(b, rapid.SampledFrom([]string{"AIFF", "AIFC", "DJVU", "DJVM", "ILBM"}).Draw(t, "iff")...)
			for i := 0; i < n; i++ {
				b = append(b, rapid.SampledFrom([]string{"COMM", "SSND", "INFO", "BMHD", "FVER"}).Draw(t, "ick")...)
				b = append(b, be(u32("ilen"))...)
				b = append(b, rapid.SliceOfN(rapid.Byte(), 0, 24).Draw(t, "idata")...)
			}
		}
		return b
	case 0: // zip local header with hostile compressed size, names, following headers
		b := []byte("PK\x03\x04\x14\x00\x00\x00\x00\x00\x00\x00\x00\x00\x00\x00\x00\x00")
		b = append(b, le(u32("csize"))...)
		b = append(b, le(u32("usize"))...)
		name := rapid.SampledFrom([]string{"[Content_Types].xml", "_rels/.rels", "docProps", "mimetype", "META-INF/MANIFEST.MF", "word/", "x", ""}).Draw(t, "name")
		b = append(b, byte(len(name)), 0, 0, 0)
		b = append(b, name...)
		for i, n := 0, rapid.IntRange(0, 6).Draw(t, "more"); i < n; i++ {
			b = append(b, rapid.SliceOfN(rapid.Byte(), 0, 30).Draw(t, "gap")...)
			b = append(b, "PK\x03\x04"...)
			b = append(b, rapid.SliceOfN(rapid.Byte(), 0, 40).Draw(t, "hdr")...)
		}
		return b
	case 1: // CRX
		b := []byte("Cr24\x02\x00\x00\x00")
		b = append(b, le(u32("pk"))...)
		b = append(b, le(u32("sig"))...)
		b = append(b, rapid.SliceOfN(rapid.Byte(), 0, 40).Draw(t, "rest")...)
		if rapid.Bool().Draw(t, "zip") {
			b = append(b, "PK\x03\x04"...)
		}
		return b
	case 2: // OLE with hostile sector id and version
		n := rapid.SampledFrom([]int{511, 512, 513, 520, 600, 1153, 4096 + 96, 4200}).Draw(t, "olelen")
		b := make([]byte, n)
		copy(b, []byte{0xD0, 0xCF, 0x11, 0xE0, 0xA1, 0xB1, 0x1A, 0xE1})
		if n > 27 && rapid.Bool().Draw(t, "v4") {
			b[26], b[27] = 4, 0
		}
		if n > 52 {
			copy(b[48:], le(u32("secid")))
		}
		if n > 80 && rapid.Bool().Draw(t, "hdrfields") {
			// minor/major version, byte order, sector shift, mini-sector shift, counts
			u16 := func(label string) uint16 {
				if rapid.Bool().Draw(t, label+"std") {
					return rapid.SampledFrom([]uint16{9, 12, 6, 3, 4, 0x3e, 0xfffe}).Draw(t, label)
				}
				return uint16(u32(label + "v"))
			}
			for _, off := range []int{24, 26, 28, 30, 32} {
				b[off], b[off+1] = byte(u16(fmt.Sprint("f", off))), 0
				if rapid.IntRange(0, 7).Draw(t, "hi") == 0 {
					b[off+1] = rapid.Byte().Draw(t, "hib")
				}
			}
			for _, off := range []int{40, 44, 56, 60, 64, 68, 72} {
				if rapid.IntRange(0, 3).Draw(t, "cnt") == 0 {
					copy(b[off:], le(u32(fmt.Sprint("c", off))))
				}
			}
		}
		return b
	case 3: // tar-ish block
		b := make([]byte, rapid.SampledFrom([]int{511, 512, 513, 1024}).Draw(t, "tarlen"))
		copy(b, rapid.SampledFrom([]string{"file", "a/gpkg-1\x00", "\xff\xff"}).Draw(t, "tname"))
		if len(b) > 156 {
			copy(b[148:], rapid.SampledFrom([]string{"0000000\x00", "       \x00", "7777777 ", "\x00\x00\x00\x00\x00\x00\x00\x00", "12345678", "0001234\x00"}).Draw(t, "chk"))
		}
		return b
	default: // TZif / ftyp / RIFF with hostile counts
		switch rapid.IntRange(0, 2).Draw(t, "bk") {
		case 0:
			b := make([]byte, rapid.SampledFrom([]int{43, 44, 45, 60}).Draw(t, "tzlen"))
			copy(b, "TZif2")
			if len(b) >= 40 {
				v := u32("tzcnt")
				b[36], b[37], b[38], b[39] = byte(v>>24), byte(v>>16), byte(v>>8), byte(v)
			}
			return b
		case 1:
			v := u32("boxsize")
			b := []byte{byte(v >> 24), byte(v >> 16), byte(v >> 8), byte(v)}
			b = append(b, "ftyp"...)
			b = append(b, rapid.SampledFrom([]string{"avif", "3gp4", "M4A ", "qt  ", "heic", "isom", "mj2s", "zzzz"}).Draw(t, "brand")...)
			return append(b, rapid.SliceOfN(rapid.Byte(), 0, 16).Draw(t, "rest")...)
		default:
			b := []byte("RIFF")
			b = append(b, le(u32("riffsize"))...)
			b = append(b, rapid.SampledFrom([]string{"WEBP", "WAVE", "AVI LIST", "QLCMfmt ", "zzzz"}).Draw(t, "form")...)
			return append(b, rapid.SliceOfN(rapid.Byte(), 0, 16).Draw(t, "rest")...)
		}
	}
}

// c01Prefixes: every prefix of every seed, at limits {0, len, len+1, 3072, MaxUint32}.
func c01Prefixes(t *testing.T) {
	sh, nsh := vfShard(), vfNShards()
	seeds := vfSeeds()
	idx := 0
	for _, s := range seeds {
		for n := 0; n <= len(s.Data); n++ {
			idx++
			if idx%nsh != sh {
				continue
			}
			x := s.Data[:n]
			for _, lim := range []uint32{0, uint32(n), uint32(n + 1), 3072, 0xffffffff} {
				c := c01Case{X: x, Limit: lim}
				vfHistPush("gen", c)
				r := func() (r vfResult) {
					defer func() {
						if p := recover(); p != nil {
							r = vfResult{Err: fmt.Errorf("panic: %v", p)}
						}
					}()
					return c01Check(c)
				}()
				r.Labels = append(r.Labels, "prefixes")
				vfStats.record(r, func() any { return map[string]any{"sub": "prefixes", "seed": s.Name, "len": n, "limit": lim} })
				if r.Err != nil {
					vfEnumFail(t, "C01", "gen", c, r.Err)
					return
				}
			}
		}
	}
	vfStats.Subchecks["prefixes"] = fmt.Sprintf("every prefix of %d seeds (%d prefixes) x limits {0,len,len+1,3072,MaxUint32}; shard takes every %d-th", len(seeds), idx, nsh)
}

// c01Cross: every seed header, padded, with every (short) literal of the tree under test
// written so that it ends at, straddles or starts at the offsets 512, 3072 and 4096: a check
// that looks for a marker inside a window meets the marker at the edge of that window.
func c01Cross(t *testing.T) {
	sh, nsh := vfShard(), vfNShards()
	maxTok := 8
	if vfThorough() {
		maxTok = 64
	}
	var toks []string
	for _, l := range vfDictLits {
		if len(l) <= maxTok {
			toks = append(toks, l)
		}
	}
	seeds := vfSeeds()
	n := int64(0)
	for si, sd := range seeds {
		if si%nsh != sh {
			continue
		}
		for _, B := range []int{512, 3072, 4096, -512, -3072, -4096} {
			// the seed's first 400 bytes, or (negative B) only its first 8: the magic number
			// without whatever else the real header holds
			base := sd.Data
			if B < 0 {
				B = -B
				if len(base) > 8 {
					base = base[:8]
				}
			} else if len(base) > 400 {
				base = base[:400]
			}
			x := make([]byte, B+24)
			copy(x, base)
			c := c01Case{X: x, Limit: 0}
			stop := vfWatchdog("C01", "gen", c, 40*time.Second)
			for _, tok := range toks {
				for _, k := range []int{0, 2, len(tok)} {
					p := B - k
					if p < len(base) || p+len(tok) > len(x) {
						continue
					}
					saved := append([]byte(nil), x[p:p+len(tok)]...)
					copy(x[p:], tok)
					err := func() (err error) {
						defer func() {
							if pn := recover(); pn != nil {
								err = fmt.Errorf("panic: %v", pn)
							}
						}()
						for _, L := range []uint32{0, uint32(B)} {
							if m := vfDetectAt(x, L); m == nil {
								return fmt.Errorf("Detect returned nil")
							}
						}
						return nil
					}()
					n++
					if err != nil {
						fc := c01Case{X: append([]byte(nil), x...), Limit: 0}
						stop()
						vfEnumFail(t, "C01", "gen", fc, fmt.Errorf("%v (seed %s padded to %d bytes, literal %s written at offset %d)", err, sd.Name, len(x), vfQ([]byte(tok)), p))
						return
					}
					copy(x[p:], saved)
				}
			}
			stop()
		}
	}
	var r vfResult
	r.Nontrivial, r.Labels, r.Hash, r.N = true, []string{"cross"}, vfHash([]byte("cross"), vfHashU(uint64(sh))), n
	vfStats.record(r, func() any { return map[string]any{"sub": "cross", "cases": n} })
	vfStats.Subchecks["cross"] = fmt.Sprintf("%d seeds x offsets {512,3072,4096} x %d literals (<= %d bytes) x 3 alignments x limits {0, offset}; this shard: %d inputs", len(seeds), len(toks), maxTok, n)
}

func TestVerif_C01(t *testing.T) {
	defer vfStats.dump()
	vfStats.Property = "C01"
	if vfOnlySub("gen") {
		vfRun(t, vfSub[c01Case]{Prop: "C01", Name: "gen", Checks: vfN(120000, 8000000), Gen: c01Gen, Check: c01Check,
			Sample: func(c c01Case) any {
				return map[string]any{"sub": "gen", "len": len(c.X), "limit": c.Limit, "x": vfQ(c.X[:min(len(c.X), 80)]), "file": c.File}
			}})
	}
	if t.Failed() {
		return
	}
	if vfOnlySub("prefixes") && !vfReplayMode() {
		c01Prefixes(t)
	}
	if t.Failed() {
		return
	}
	if vfOnlySub("cross") && !vfReplayMode() {
		c01Cross(t)
	}
	if t.Failed() {
		return
	}
	if vfOnlySub("big") && !vfReplayMode() {
		// 70 KB - 2.5 MB inputs of every text family, examined in full and under large limits
		kinds := []string{"html-giant-comment", "html-giant-script", "json-array", "geojson-decider-last", "csv", "ndjson-long-line", "text-latin-tail", "filler"}
		sizes := []int{70000, 1100000}
		if vfThorough() {
			sizes = append(sizes, 2500000)
		}
		i := 0
		for _, k := range kinds {
			for _, n := range sizes {
				i++
				if i%vfNShards() != vfShard() {
					continue
				}
				x := vfBig(k, n)
				for _, lim := range []uint32{0, 1 << 20, uint32(len(x))} {
					c := c01Case{X: x, Limit: lim}
					r := vfSub[c01Case]{Name: "gen", Check: c01Check}.safeCheck(c)
					r.Labels = append(r.Labels, "big-input")
					vfStats.record(r, func() any { return map[string]any{"sub": "big", "kind": k, "len": len(x), "limit": lim} })
					if r.Err != nil {
						vfEnumFail(t, "C01", "gen", c, r.Err)
						return
					}
				}
			}
		}
		vfStats.Subchecks["big"] = "8 families x sizes {70 KB, 1.1 MB, 2.5 MB} x limits {0, 1 MiB, len}"
	}
	if t.Failed() {
		return
	}
	if vfOnlySub("extended") {
		// crash freedom on trees enlarged by chains of extensions (deeper than any built-in path)
		vfRun(t, vfSub[c02Ext]{Prop: "C01", Name: "extended", Checks: vfN(6000, 600000), Gen: c02ExtGen,
			Check: func(c c02Ext) vfResult {
				vfTreeSnapshot()
				vfTreeRestore()
				defer vfTreeRestore()
				for _, e := range c.Exts {
					if err := e.apply(); err != nil {
						return vfApplyFailed(err)
					}
				}
				var r vfResult
				m := vfDetectAt(c.Doc, c.Limit)
				mr, err := DetectReader(bytes.NewReader(c.Doc))
				if m == nil || mr == nil || err != nil {
					r.Err = fmt.Errorf("after %d Extend calls: Detect=%v DetectReader=(%v,%v)", len(c.Exts), m, mr, err)
				}
				r.Nontrivial = len(vfChain(m)) >= 5
				r.Labels = append(r.Labels, "extended-tree")
				r.Hash = vfHash(c.Doc, vfHashU(uint64(c.Limit)), []byte(fmt.Sprint(c.Exts)))
				return r
			}})
	}
	if t.Failed() {
		return
	}
	if vfOnlySub("deep") {
		vfRun(t, vfSub[c01Deep]{Prop: "C01", Name: "deep", Check: c01DeepCheck})
		if vfReplayMode() || t.Failed() || vfShard() >= 4 {
			return
		}
		shapes := []string{"[", "{\"k\":", "[{\"k\":", " [ "}
		shape := shapes[vfShard()%len(shapes)]
		for _, depth := range []int{200000, 1000000} {
			for _, lim := range []uint32{0, 0xffffffff} {
				c := c01Deep{Shape: shape, Depth: depth, Limit: lim}
				r := c01DeepCheck(c)
				vfStats.record(r, func() any { return map[string]any{"sub": "deep", "case": c} })
				if r.Err != nil {
					vfEnumFail(t, "C01", "deep", c, r.Err)
					return
				}
			}
		}
		vfStats.Subchecks["deep"] = "nestings of 200000 and 1000000 levels under a 128 MiB maximum stack ('[', '{\"k\":', '[{\"k\":', ' [ '; one shape per shard 0-3) at limits 0 and 2^32-1 through Detect and DetectReader"
	}
}

// c01Deep: very deep nestings examined in full under a 128 MiB maximum stack: a recursion that
// grows with the input dies with a fatal error, and the journal names the case.
type c01Deep struct {
	Shape string `json:"shape"`
	Depth int    `json:"depth"`
	Limit uint32 `json:"limit"`
}

func c01DeepCheck(c c01Deep) vfResult {
	var r vfResult
	old := debug.SetMaxStack(128 << 20)
	defer debug.SetMaxStack(old)
	vfJournal("C01", "deep", c)
	x := []byte(strings.Repeat(c.Shape, c.Depth))
	SetLimit(c.Limit)
	defer SetLimit(defaultLimit)
	m := Detect(x)
	mr, err := m, error(nil)
	if c.Limit == 0 { // DetectReader allocates `limit` bytes by design; only the unlimited case is run
		mr, err = DetectReader(bytes.NewReader(x))
	}
	r.Nontrivial = true
	r.Labels = []string{"deep-nesting"}
	r.Hash = vfHash([]byte(c.Shape), vfHashU(uint64(c.Depth), uint64(c.Limit)))
	if m == nil || mr == nil || err != nil {
		r.Err = fmt.Errorf("deep nesting %q x %d at limit %d: Detect=%v DetectReader=(%v,%v)", c.Shape, c.Depth, c.Limit, m, mr, err)
	}
	return r
}

func FuzzVerif_C01(f *testing.F) {
	for _, s := range vfSeeds() {
		f.Add(s.Data, uint32(0))
		f.Add(s.Data, uint32(len(s.Data)))
	}
	for _, h := range vfHostile {
		b := []byte("PK\x03\x04\x14\x00\x00\x00\x00\x00\x00\x00\x00\x00\x00\x00\x00\x00")
		b = append(b, byte(h), byte(h>>8), byte(h>>16), byte(h>>24))
		b = append(b, make([]byte, 40)...)
		f.Add(b, uint32(0))
		c := []byte("Cr24\x02\x00\x00\x00")
		c = append(c, byte(h), byte(h>>8), byte(h>>16), byte(h>>24), byte(h), byte(h>>8), byte(h>>16), byte(h>>24))
		f.Add(c, h)
	}
	f.Fuzz(func(t *testing.T, x []byte, limit uint32) {
		c := c01Case{X: x, Limit: limit}
		r := vfSub[c01Case]{Check: c01Check}.safeCheck(c)
		if r.Err != nil {
			vfWriteFail("C01", "gen", c, r.Err)
			t.Fatalf("C01: %v", r.Err)
		}
	})
}
