//go:build verif

package mimetype

import (
	"bytes"
	"errors"
	"fmt"
	"io"
	"mime"
	"path/filepath"
	"strings"
	"testing"

	"pgregory.net/rapid"
)

// C02 — the result is always a valid, registered MIME type with a rooted hierarchy.

type c02Case struct {
	Doc    vfB    `json:"doc"`
	Limit  uint32 `json:"limit"`
	Entry  string `json:"entry"`   // detect | reader | readerr | nofile | dir
	ErrAt  int    `json:"err_at"`  // readerr: offset at which the reader fails
	Hostil bool   `json:"hostile"` // generator marked the label as hostile
}

var errC02Sentinel = errors.New("verif: injected read failure")

type c02FailReader struct {
	data []byte
	off  int
	at   int
}

func (r *c02FailReader) Read(p []byte) (int, error) {
	if r.off >= r.at {
		return 0, errC02Sentinel
	}
	n := copy(p, r.data[r.off:min(r.at, len(r.data))])
	r.off += n
	if n == 0 {
		return 0, errC02Sentinel
	}
	return n, nil
}

// c02FlakySeeker reads fine; its Seek works `okSeeks` times and fails afterwards (a forward-only
// stream, a file that closes itself at EOF): whatever DetectReader does with Seek, an error it
// returns comes with the bare application/octet-stream.
type c02FlakySeeker struct {
	r       *bytes.Reader
	okSeeks int
}

func (s *c02FlakySeeker) Read(p []byte) (int, error) { return s.r.Read(p) }
func (s *c02FlakySeeker) Seek(off int64, whence int) (int64, error) {
	if s.okSeeks <= 0 {
		return 0, errC02Sentinel
	}
	s.okSeeks--
	return s.r.Seek(off, whence)
}

var c02Registered map[string]bool

// c02IsToken: RFC 2045 token.
func c02IsToken(s string) bool {
	if s == "" {
		return false
	}
	for i := 0; i < len(s); i++ {
		c := s[i]
		if c <= 0x20 || c >= 0x7f || strings.IndexByte("()<>@,;:\\\"/[]?=", c) >= 0 {
			return false
		}
	}
	return true
}

// c02CheckValue verifies everything the property states about one returned value.
func c02CheckValue(m *MIME, err error) (nontrivial bool, labels []string, e error) {
	if c02Registered == nil {
		c02Registered = vfRegistered()
	}
	if m == nil {
		return false, nil, fmt.Errorf("nil result")
	}
	if err != nil {
		labels = append(labels, "error-path")
		if m.String() != "application/octet-stream" || m.Extension() != "" || m.Parent() != nil {
			return true, labels, fmt.Errorf("error %v returned together with %s ext=%q parent=%v; want exactly application/octet-stream", err, m.String(), m.Extension(), m.Parent())
		}
		return true, labels, nil
	}
	mt, params, perr := mime.ParseMediaType(m.String())
	if perr != nil {
		return true, labels, fmt.Errorf("String() = %q is not accepted by mime.ParseMediaType: %v", m.String(), perr)
	}
	if !c02Registered[mt] {
		return true, labels, fmt.Errorf("type %q (from %q) is not a registered format", mt, m.String())
	}
	for k, v := range params {
		if k != "charset" {
			return true, labels, fmt.Errorf("unexpected parameter %q in %q", k, m.String())
		}
		if mt != "text/plain" && mt != "text/html" && mt != "text/xml" {
			return true, labels, fmt.Errorf("charset parameter on %q", m.String())
		}
		if !c02IsToken(v) {
			nontrivial = true
			labels = append(labels, "charset-needs-quoting-or-rfc2231")
		} else {
			labels = append(labels, "charset-token")
		}
	}
	if len(params) == 0 && strings.Contains(m.String(), ";") {
		return true, labels, fmt.Errorf("String() = %q carries a ';' but no parameter", m.String())
	}
	// ancestors
	steps := 0
	last := m
	for p := m.Parent(); p != nil; p = p.Parent() {
		steps++
		if steps > 64 {
			return true, labels, fmt.Errorf("Parent() chain longer than 64: %s", vfChainStr(m))
		}
		pt, pp, e := mime.ParseMediaType(p.String())
		if e != nil {
			return true, labels, fmt.Errorf("ancestor %q does not parse: %v", p.String(), e)
		}
		if len(pp) != 0 || strings.Contains(p.String(), ";") {
			return true, labels, fmt.Errorf("ancestor %q carries parameters", p.String())
		}
		if !c02Registered[pt] {
			return true, labels, fmt.Errorf("ancestor %q is not a registered format", p.String())
		}
		last = p
	}
	if last.String() != "application/octet-stream" || last.Parent() != nil {
		return true, labels, fmt.Errorf("chain does not end at application/octet-stream: %s", vfChainStr(m))
	}
	labels = append(labels, fmt.Sprintf("depth-%d", steps))
	return nontrivial, labels, nil
}

func c02Run(c c02Case) (*MIME, error) {
	doc := []byte(c.Doc)
	SetLimit(c.Limit)
	defer SetLimit(defaultLimit)
	switch c.Entry {
	case "reader":
		return DetectReader(bytes.NewReader(doc))
	case "readerr":
		return DetectReader(&c02FailReader{data: doc, at: c.ErrAt})
	case "flakyseek":
		return DetectReader(&c02FlakySeeker{r: bytes.NewReader(doc), okSeeks: int(vfHash(doc, vfHashU(uint64(c.Limit))) % 4)})
	case "nofile":
		return DetectFile(filepath.Join(vfScratchDir(), "does", "not", "exist"))
	case "dir":
		return DetectFile(vfScratchDir())
	case "fileslash": // a regular file named with a trailing separator: ENOTDIR
		return DetectFile(vfWriteFile("c02s", doc, 0) + string(filepath.Separator))
	case "file":
		return DetectFile(vfWriteFile("c02", doc, vfHash(doc)))
	}
	return Detect(doc), nil
}

func c02Check(c c02Case) vfResult {
	var r vfResult
	if c.Limit > c01MaxReaderLimit && c.Entry != "detect" {
		c.Entry = "detect"
	}
	m, err := c02Run(c)
	nt, labels, e := c02CheckValue(m, err)
	r.Nontrivial, r.Labels, r.Err = nt, append(labels, "entry-"+c.Entry), e
	if e != nil {
		r.Err = fmt.Errorf("%v; entry=%s limit=%d doc=%s", e, c.Entry, c.Limit, vfQ(c.Doc))
	}
	if c.Entry == "readerr" && err != nil && !errors.Is(err, errC02Sentinel) {
		r.Err = fmt.Errorf("reader failed with the sentinel but DetectReader returned error %v", err)
	}
	if (c.Entry == "nofile" || c.Entry == "dir" || c.Entry == "fileslash") && err == nil {
		r.Err = fmt.Errorf("DetectFile(%s) returned no error", c.Entry)
	}
	r.Hash = vfHash(c.Doc, vfHashU(uint64(c.Limit), uint64(c.ErrAt)), []byte(c.Entry))
	return r
}

var c02LabelPieces = []string{
	"utf-8", "x", "ISO-8859-1", "\"", "'", ";", "=", "\\", "\r", "\n", "\t", " ", "\x00", "\x1b", "\x7f", "\xff", "\xfe", "\xc3\xa9", "\xe2\x82\xac", "\xc3", "\xed\xa0\x80",
	"&quot;", "&#10;", "&#x22;", "&amp;", "&#0;", "&#x80;", "&lt;", "%", "%41", "*", "''", "utf-8''x", "(", ")", "<", ">", "@", ",", ":", "/", "[", "]", "?", "charset=", "; x=y", "\"; x=\"y",
	"日本", "A", "utf-16", "UTF-16LE",
}

func c02GenLabel(t *rapid.T) (string, bool) {
	if rapid.IntRange(0, 9).Draw(t, "long") == 0 {
		return strings.Repeat(rapid.SampledFrom([]string{"a", "\xff", "\"", "é", ";"}).Draw(t, "lp"), rapid.IntRange(100, 400).Draw(t, "ll")), true
	}
	n := rapid.IntRange(0, 5).Draw(t, "nl")
	var sb strings.Builder
	for i := 0; i < n; i++ {
		sb.WriteString(rapid.SampledFrom(c02LabelPieces).Draw(t, "lpc"))
	}
	return sb.String(), true
}

func c02Gen(t *rapid.T) c02Case {
	var c c02Case
	var doc string
	switch rapid.IntRange(0, 7).Draw(t, "k") {
	case 7: // zip packages of every kind (a stored `mimetype` entry may name any type at all)
		if raw, err := c19Build(c19GenOne(t).Entries); err == nil {
			doc = string(raw)
		}
	case 0, 1: // html direct meta
		l, _ := c02GenLabel(t)
		q := rapid.SampledFrom([]string{`"`, `'`, ""}).Draw(t, "q")
		if q != "" {
			l = strings.ReplaceAll(l, q, "")
		}
		doc = rapid.SampledFrom([]string{"<html><head>", "<!DOCTYPE html>", "\xef\xbb\xbf<html>", " <head>"}).Draw(t, "st") + "<meta charset=" + q + l + q + ">" + rapid.SampledFrom([]string{"", "<body>x", "\xe9"}).Draw(t, "tl")
		c.Hostil = true
	case 2: // html pragma
		l, _ := c02GenLabel(t)
		l = strings.ReplaceAll(l, `"`, "")
		doc = "<html><head><meta http-equiv=\"Content-Type\" content=\"text/html; charset=" + l + "\">"
		c.Hostil = true
	case 3: // xml
		l, _ := c02GenLabel(t)
		q := rapid.SampledFrom([]string{`"`, `'`}).Draw(t, "q")
		l = strings.ReplaceAll(l, q, "")
		doc = "<?xml version=\"1.0\" encoding=" + q + l + q + "?><a/>"
		c.Hostil = true
	case 4: // BOM variants + text
		doc = string(rapid.SampledFrom(vfBOMs).Draw(t, "bom").bom) + vfGenTextish(t)
	default:
		doc = string(vfGenAnyInput(t))
	}
	c.Doc = vfB(doc)
	c.Limit = vfGenLimit(t, len(doc))
	c.Entry = rapid.SampledFrom([]string{"detect", "detect", "detect", "reader", "reader", "readerr", "file", "nofile", "dir", "fileslash", "flakyseek"}).Draw(t, "entry")
	if c.Entry == "readerr" {
		c.ErrAt = rapid.IntRange(0, len(doc)).Draw(t, "errat")
	}
	return c
}

var _ io.Reader = (*c02FailReader)(nil)

// c02Ext: the same invariants on trees enlarged by Extend (results deeper than any built-in path)
type c02Ext struct {
	// OnResult: before the final detection, Extend is called on the value returned by a first
	// detection of the same input (with a predicate accepting everything)
	OnResult bool    `json:"extend_on_result,omitempty"`
	Exts  []vfExt `json:"exts"`
	Doc   vfB     `json:"doc"`
	Limit uint32  `json:"limit"`
}

func c02ExtCheck(c c02Ext) vfResult {
	var r vfResult
	vfTreeSnapshot()
	vfTreeRestore()
	c02Registered = nil
	defer func() { vfTreeRestore(); c02Registered = nil }()
	for _, e := range c.Exts {
		if err := e.apply(); err != nil {
			return vfApplyFailed(err)
		}
	}
	if c.OnResult {
		m0 := vfDetectAt(c.Doc, c.Limit)
		m0.Extend(func([]byte, uint32) bool { return true }, "application/x-verif-onresult", ".onr")
	}
	m := vfDetectAt(c.Doc, c.Limit)
	// registered names now include the extensions (bare type of each registered string)
	c02Registered = map[string]bool{}
	for _, n := range root.flatten() {
		c02Registered[strings.ToLower(vfBare(n.mime))] = true
	}
	c02Registered["application/x-verif-onresult"] = true // only reachable if Extend on a result leaked into the tree
	depth := len(vfChain(m)) - 1
	_, labels, e := c02CheckValue(m, nil)
	r.Labels = append(labels, "extended-tree")
	r.Nontrivial = depth >= 4
	if e != nil {
		r.Err = fmt.Errorf("%v; after %d Extend calls, limit=%d doc=%s", e, len(c.Exts), c.Limit, vfQ(c.Doc))
	}
	r.Hash = vfHash(c.Doc, vfHashU(uint64(c.Limit), uint64(len(c.Exts))), []byte(fmt.Sprint(c.Exts)))
	return r
}

func c02ExtGen(t *rapid.T) c02Ext {
	var c c02Ext
	parent := rapid.SampledFrom([]string{"", "text/plain", "application/rss+xml", "image/vnd.mozilla.apng", "application/vnd.oasis.opendocument.text-template", "application/geo+json", "application/zip", "text/html"}).Draw(t, "chainroot")
	depth := rapid.IntRange(1, 6).Draw(t, "chain")
	if rapid.IntRange(0, 5).Draw(t, "deepchain") == 0 {
		depth = rapid.IntRange(7, 26).Draw(t, "chain2")
	}
	for i := 0; i < depth; i++ {
		e := vfExt{Parent: parent, Mime: fmt.Sprintf("application/x-verif-%d", i), Ext: fmt.Sprintf(".vf%d", i), Pred: vfPred{Kind: "always"}}
		switch rapid.IntRange(0, 11).Draw(t, "collide") {
		case 0: // an alias (not the name) equal to one of the charset-carrying types
			e.Aliases = []string{rapid.SampledFrom([]string{"text/plain", "text/html", "text/xml"}).Draw(t, "calias")}
		case 1:
			e.Aliases = []string{"TEXT/PLAIN", "text/html; charset=utf-8"}
		}
		c.Exts = append(c.Exts, e)
		parent = e.Mime
	}
	c.OnResult = rapid.IntRange(0, 3).Draw(t, "onresult") == 0
	switch rapid.IntRange(0, 3).Draw(t, "doc") {
	case 0:
		c.Doc = vfB(c02Gen(t).Doc)
	case 1:
		c.Doc = vfB(c03GenInput(t))
	default:
		c.Doc = vfGenSeed(t)
	}
	c.Limit = vfGenLimit(t, len(c.Doc))
	return c
}

func TestVerif_C02(t *testing.T) {
	defer vfStats.dump()
	if vfOnlySub("static") {
		vfRunStatic(t, "C02", 0)
	}
	if t.Failed() {
		return
	}
	if vfOnlySub("extended") {
		vfRun(t, vfSub[c02Ext]{Prop: "C02", Name: "extended", Checks: vfN(30000, 2000000), Gen: c02ExtGen, Check: c02ExtCheck})
	}
	if t.Failed() || !vfOnlySub("gen") {
		return
	}
	vfRun(t, vfSub[c02Case]{Prop: "C02", Name: "gen", Checks: vfN(150000, 8000000), Gen: c02Gen, Check: c02Check})
}

func FuzzVerif_C02(f *testing.F) {
	f.Add([]byte("<html><meta charset=\"\xff\xfe\">"), uint32(0))
	f.Add([]byte("<?xml version=\"1.0\" encoding='a\"b;c'?>"), uint32(0))
	f.Add([]byte("<html><head><meta http-equiv=content-type content=\"text/html; charset=&#0;x\">"), uint32(40))
	for _, s := range vfSeeds() {
		if len(s.Data) < 300 {
			f.Add(s.Data, uint32(0))
		}
	}
	f.Fuzz(func(t *testing.T, x []byte, limit uint32) {
		c := c02Case{Doc: x, Limit: limit, Entry: "detect"}
		r := vfSub[c02Case]{Check: c02Check}.safeCheck(c)
		if r.Err != nil {
			vfWriteFail("C02", "gen", c, r.Err)
			t.Fatalf("C02: %v", r.Err)
		}
	})
}
