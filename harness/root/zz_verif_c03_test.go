//go:build verif

package mimetype

import (
	"encoding/binary"
	"fmt"
	"strings"
	"testing"

	"pgregory.net/rapid"
)

// C03 — the reported hierarchy is the first-match deepest path of the detector tree.
//
// Every node's detector is wrapped (in this process only) by a recorder. For each case the
// recorded consultation sequence of Detect must equal the sequence predicted by an independent
// first-match descent that uses the ORIGINAL detector functions, and the result's chain must
// equal the predicted path by (type, extension) at every level.

type c03Case struct {
	X     vfB     `json:"x"`
	Limit uint32  `json:"limit"`
	Exts  []vfExt `json:"exts,omitempty"` // Extend calls applied before detection (tree restored afterwards)
	// OnResult: Extend is also called on a value RETURNED by an earlier detection (and on its
	// parent). Returned values are clones, so this must not change the tree.
	OnResult bool `json:"extend_on_result,omitempty"`
}

var (
	c03Orig  map[*MIME]func([]byte, uint32) bool
	c03Trace []*MIME
)

func c03Wrap() {
	if c03Orig == nil {
		c03Orig = map[*MIME]func([]byte, uint32) bool{}
	}
	for _, n := range root.flatten() {
		if n == root {
			continue
		}
		if _, ok := c03Orig[n]; ok {
			continue
		}
		n := n
		orig := n.detector
		c03Orig[n] = orig
		n.detector = func(in []byte, l uint32) bool {
			c03Trace = append(c03Trace, n)
			return orig(in, l)
		}
	}
}

func c03Names(ns []*MIME) string {
	s := ""
	for i, n := range ns {
		if i > 0 {
			s += ","
		}
		if i >= 12 && i < len(ns)-6 {
			if i == 12 {
				s += "..."
			}
			continue
		}
		s += n.mime + n.extension
	}
	return s
}

func c03Check(c c03Case) vfResult {
	var r vfResult
	vfTreeRestore()
	c03Orig = nil
	defer vfTreeRestore()
	var shadow *vfShadow
	if len(c.Exts) > 0 || c.OnResult {
		shadow = vfShadowFrom(root, nil) // model of the tree, independent of what happens to the live one
	}
	for _, e := range c.Exts {
		if err := e.apply(); err != nil {
			return vfApplyFailed(err)
		}
		_ = shadow.extend(e)
	}
	if c.OnResult {
		m0 := vfDetectAt([]byte(c.X), c.Limit)
		m0.Extend(func([]byte, uint32) bool { return true }, "application/x-verif-onresult", ".onr")
		if p := m0.Parent(); p != nil {
			p.Extend(func([]byte, uint32) bool { return true }, "application/x-verif-onresult-parent", ".onp")
		}
		r.Labels = append(r.Labels, "extend-called-on-a-returned-value")
	}
	c03Wrap()
	x := []byte(c.X)
	c03Trace = c03Trace[:0]
	m := vfDetectAt(x, c.Limit)
	got := append([]*MIME(nil), c03Trace...)
	path, consulted := vfRefWalk(c03Orig, x, c.Limit)
	c03Trace = c03Trace[:0]
	if len(got) != len(consulted) {
		r.Err = fmt.Errorf("consulted %d detectors [%s], first-match descent consults %d [%s]; x=%s limit=%d", len(got), c03Names(got), len(consulted), c03Names(consulted), vfQ(x), c.Limit)
		return r
	}
	for i := range got {
		if got[i] != consulted[i] {
			r.Err = fmt.Errorf("consultation %d is %s, first-match descent expects %s; x=%s limit=%d", i, got[i].mime+got[i].extension, consulted[i].mime+consulted[i].extension, vfQ(x), c.Limit)
			return r
		}
	}
	// chain of the result, leaf first, vs. predicted path (root first)
	chain := vfChain(m)
	want := make([]vfNode, 0, len(path))
	for i := len(path) - 1; i >= 0; i-- {
		want = append(want, vfNode{path[i].mime, path[i].extension})
	}
	if !vfChainEq(chain, want) {
		r.Err = fmt.Errorf("result chain %s differs from first-match path %s; x=%s limit=%d", vfChainFmt(chain), vfChainFmt(want), vfQ(x), c.Limit)
		return r
	}
	if shadow != nil {
		if sw, _ := shadow.walk(x, c.Limit); !vfChainEq(chain, sw) {
			r.Err = fmt.Errorf("result chain %s differs from the first-match path over the MODEL of the extended tree %s (the live tree no longer matches the sequence of Extend calls); x=%s limit=%d", vfChainFmt(chain), vfChainFmt(sw), vfQ(x), c.Limit)
			return r
		}
	}
	// the chain must consist of fresh values, not tree nodes
	for p := m; p != nil; p = p.Parent() {
		if _, isNode := c03Orig[p]; isNode || p == root {
			r.Err = fmt.Errorf("result chain contains the tree node %s itself instead of a clone", p.mime)
			return r
		}
	}
	if len(c.Exts) == 0 && !c.OnResult {
		if err := vfRoutes(x, c.Limit, m); err != nil {
			r.Err = fmt.Errorf("%v; x=%s", err, vfQ(x))
			return r
		}
	}
	// non-trivial: depth >= 2 below the root, or two siblings accept at some level
	h := vfHeader(x, c.Limit)
	multi := false
	for i := 0; i < len(path) && !multi; i++ {
		acc := 0
		for _, ch := range path[i].children {
			if c03Orig[ch](h, c.Limit) {
				acc++
			}
		}
		if acc >= 2 {
			multi = true
		}
	}
	c03Trace = c03Trace[:0]
	r.Nontrivial = len(path) >= 3 || multi
	r.Labels = append(r.Labels, fmt.Sprintf("depth-%d", len(path)-1))
	if multi {
		r.Labels = append(r.Labels, "siblings-compete")
	}
	if len(c.Exts) > 0 {
		r.Labels = append(r.Labels, "extended-tree")
		for _, n := range path {
			if len(n.mime) > 19 && n.mime[:19] == "application/x-verif" {
				r.Labels = append(r.Labels, "path-through-extension")
				break
			}
		}
	}
	r.Hash = vfHash(x, vfHashU(uint64(c.Limit), uint64(len(c.Exts))))
	return r
}

// ---- polyglot builders

func c03Zip(t *rapid.T) []byte {
	var b []byte
	names := rapid.SliceOfN(rapid.SampledFrom([]string{"[Content_Types].xml", "_rels/.rels", "docProps/app.xml", "word/document.xml", "xl/workbook.xml", "ppt/slides/s1.xml",
		"META-INF/MANIFEST.MF", "AndroidManifest.xml", "classes.dex", "resources.arsc", "res/drawable/a.png", "mimetype", "customXml/item1.xml", "a.txt"}), 1, 6).Draw(t, "names")
	for i, n := range names {
		body := rapid.SampledFrom([]string{"", "hello", "application/epub+zip", "application/vnd.oasis.opendocument.text", "application/vnd.oasis.opendocument.spreadsheet-template", "<?xml version=\"1.0\"?><Types/>", "0123456789012345678901234567890123456789"}).Draw(t, "body")
		if i > 0 && n == "mimetype" {
			body = "x"
		}
		h := make([]byte, 30)
		copy(h, "PK\x03\x04\x14\x00\x00\x00\x00\x00")
		binary.LittleEndian.PutUint32(h[18:], uint32(len(body)))
		binary.LittleEndian.PutUint32(h[22:], uint32(len(body)))
		binary.LittleEndian.PutUint16(h[26:], uint16(len(n)))
		b = append(b, h...)
		b = append(b, n...)
		b = append(b, body...)
	}
	return b
}

func c03Ole(t *rapid.T) []byte {
	clsids := [][]byte{
		{0x06, 0x09, 0x02, 0x00, 0x00, 0x00, 0x00, 0x00, 0xc0, 0x00, 0x00, 0x00, 0x00, 0x00, 0x00, 0x46},
		{0x10, 0x8d, 0x81, 0x64, 0x9b, 0x4f, 0xcf, 0x11, 0x86, 0xea, 0x00, 0xaa, 0x00, 0xb9, 0x29, 0xe8},
		{0x10, 0x08, 0x02, 0x00, 0x00, 0x00, 0x00, 0x00, 0xc0, 0x00, 0x00, 0x00, 0x00, 0x00, 0x00, 0x46},
		{0x20, 0x08, 0x02, 0x00, 0x00, 0x00, 0x00, 0x00, 0xc0, 0x00, 0x00, 0x00, 0x00, 0x00, 0x00, 0x46},
		{0x01, 0x12, 0x02, 0x00, 0x00, 0x00, 0x00, 0x00, 0x00, 0xC0, 0x00, 0x00, 0x00, 0x00, 0x00, 0x46},
		{0x0B, 0x0D, 0x02, 0x00, 0x00, 0x00, 0x00, 0x00, 0xC0, 0x00, 0x00, 0x00, 0x00, 0x00, 0x00, 0x46},
		{0x84, 0x10, 0x0C, 0x00, 0x00, 0x00, 0x00, 0x00, 0xC0, 0x00, 0x00, 0x00, 0x00, 0x00, 0x00, 0x46},
		make([]byte, 16),
	}
	sec := rapid.IntRange(0, 3).Draw(t, "sec")
	n := 512*(1+sec) + 80 + 17 + rapid.IntRange(0, 700).Draw(t, "extra")
	b := make([]byte, n)
	copy(b, []byte{0xD0, 0xCF, 0x11, 0xE0, 0xA1, 0xB1, 0x1A, 0xE1})
	binary.LittleEndian.PutUint32(b[48:], uint32(sec))
	copy(b[512*(1+sec)+80:], rapid.SampledFrom(clsids).Draw(t, "clsid"))
	if rapid.Bool().Draw(t, "sub") && n > 530 {
		copy(b[512:], rapid.SampledFrom([][]byte{{0xA0, 0x46, 0x1D, 0xF0}, {0x09, 0x08, 0x10, 0x00, 0x00, 0x06, 0x05, 0x00}, {0xFD, 0xFF, 0xFF, 0xFF, 0x10, 0, 0, 0}, {0xFD, 0xFF, 0xFF, 0xFF, 0x00, 0, 0, 0}, {0x0F, 0x00, 0xE8, 0x03}}).Draw(t, "subhdr"))
	}
	if rapid.Bool().Draw(t, "aaf") {
		copy(b[8:], []byte{0x41, 0x41, 0x46, 0x42, 0x0D, 0x00, 0x4F, 0x4D})
		b[30] = 0x09
	}
	if rapid.IntRange(0, 3).Draw(t, "ustr") == 0 && n > 1300 {
		copy(b[1160:], "W\x00k\x00s\x00S\x00S\x00W\x00o\x00r\x00k\x00B\x00o\x00o\x00k")
	}
	return b
}

func c03Binary(t *rapid.T) []byte {
	switch rapid.IntRange(0, 7).Draw(t, "bk") {
	case 0: // RIFF families
		return []byte("RIFF\x24\x00\x00\x00" + rapid.SampledFrom([]string{"WEBPVP8 ", "WAVEfmt ", "AVI LIST", "QLCMfmt ", "WEBP", "WAVE"}).Draw(t, "riff") + "\x00\x00\x00\x00")
	case 1: // ftyp brands
		return append([]byte("\x00\x00\x00\x18ftyp"+rapid.SampledFrom([]string{"avif", "3gp4", "3g2a", "M4A ", "M4V ", "mqt ", "qt  ", "heic", "hevc", "mif1", "msf1", "mj2s", "dby1", "isom", "F4A ", "mp42"}).Draw(t, "brand")), make([]byte, 8)...)
	case 2: // ELF types
		b := make([]byte, 20)
		copy(b, "\x7fELF\x02\x01\x01")
		b[16] = byte(rapid.IntRange(0, 5).Draw(t, "etype"))
		if rapid.Bool().Draw(t, "be") {
			b[16], b[17] = 0, b[16]
		}
		return b
	case 3: // PNG / APNG
		b := make([]byte, 45)
		copy(b, "\x89PNG\x0d\x0a\x1a\x0a")
		if rapid.Bool().Draw(t, "apng") {
			copy(b[37:], "acTL")
		}
		return b
	case 4: // shx / shp
		b := make([]byte, 112)
		binary.BigEndian.PutUint32(b, 9994)
		binary.LittleEndian.PutUint32(b[28:], uint32(rapid.SampledFrom([]int{1000, 999}).Draw(t, "ver")))
		binary.LittleEndian.PutUint32(b[108:], uint32(rapid.SampledFrom([]int{0, 1, 5, 31, 2}).Draw(t, "shape")))
		return b
	case 5: // ogg
		b := make([]byte, 40)
		copy(b, "OggS\x00")
		copy(b[28:], rapid.SampledFrom([]string{"\x7fFLAC", "\x01vorbis", "OpusHead", "\x80theora", "fishead\x00", "xxxx"}).Draw(t, "ogg"))
		return b
	case 6: // ar / deb
		return []byte("!<arch>\n" + rapid.SampledFrom([]string{"debian-binary   ", "other           "}).Draw(t, "ar"))
	default: // class vs mach-o fat, ttf vs access
		return rapid.SampledFrom([][]byte{
			[]byte("\xca\xfe\xba\xbe\x00\x00\x00\x34"), []byte("\xca\xfe\xba\xbe\x00\x00\x00\x02"), []byte("\xca\xfe\xba\xbe\x00\x00\x00\x1e"),
			[]byte("\x00\x01\x00\x00Standard Jet DB\x00"), []byte("\x00\x01\x00\x00Standard ACE DB\x00"), []byte("\x00\x01\x00\x00Standard"), []byte("\x00\x01\x00\x00\x00\x0c\x00\x80"),
		}).Draw(t, "misc")
	}
}

func c03GenInput(t *rapid.T) []byte {
	switch rapid.IntRange(0, 9).Draw(t, "k") {
	case 0, 1:
		return c03Zip(t)
	case 2:
		return c03Ole(t)
	case 3:
		return c03Binary(t)
	case 4:
		return []byte(c10Gen(t).Doc)
	case 5:
		return []byte(c13GenFwd(t).Doc)
	case 6:
		c := c12GenHTML(t)
		return []byte(c.Doc)
	case 7:
		c := c12GenXML(t)
		return append([]byte(c.Doc), rapid.SampledFrom([]string{"", "<rss version=\"2.0\">", "<feed xmlns=\"http://www.w3.org/2005/Atom\">", "<svg xmlns=\"http://www.w3.org/2000/svg\">", "<kml xmlns=\"http://www.opengis.net/kml/2.2\">", "<gpx xmlns=\"http://www.topografix.com/GPX/1/1\">"}).Draw(t, "xroot")...)
	case 8:
		return vfMutate(t, vfGenSeed(t), 3)
	}
	return vfGenAnyInput(t)
}

func TestVerif_C03(t *testing.T) {
	defer vfStats.dump()
	vfTreeSnapshot()
	sample := func(c c03Case) any {
		return map[string]any{"len": len(c.X), "limit": c.Limit, "x": vfQ(c.X[:min(len(c.X), 90)]), "exts": c.Exts, "path": vfChainStr(vfDetectAt(c.X, c.Limit))}
	}
	if vfOnlySub("static") {
		vfRunStatic(t, "C03", 48)
	}
	if t.Failed() {
		return
	}
	if vfOnlySub("builtin") {
		vfRun(t, vfSub[c03Case]{Prop: "C03", Name: "builtin", Checks: vfN(80000, 16000000), Sample: sample, Check: c03Check,
			Gen: func(t *rapid.T) c03Case {
				x := c03GenInput(t)
				return c03Case{X: x, Limit: vfGenLimit(t, len(x))}
			}})
	}
	if t.Failed() {
		return
	}
	if vfOnlySub("extended") {
		vfRun(t, vfSub[c03Case]{Prop: "C03", Name: "extended", Checks: vfN(30000, 6000000), Sample: sample, Check: c03Check,
			Gen: func(t *rapid.T) c03Case {
				x := c03GenInput(t)
				if rapid.IntRange(0, 2).Draw(t, "vf") == 0 {
					x = append([]byte(rapid.SampledFrom([]string{"VF1:", "VF2:", "VF"}).Draw(t, "magic")), x...)
				}
				var exts []vfExt
				if rapid.IntRange(0, 14).Draw(t, "deeptree") == 0 {
					// a trunk of 3-7 levels, then two sibling branches whose descendants are registered
					// alternately; the input takes branch a or b
					parent := rapid.SampledFrom([]string{"", "text/plain", "application/zip"}).Draw(t, "trunkroot")
					k := 0
					add := func(parent, arg, tag string) string {
						e := vfExt{Parent: parent, Mime: fmt.Sprintf("application/x-verif-%d%s", k, tag), Ext: fmt.Sprintf(".vf%d%s", k, tag), Pred: vfPred{Kind: "contains", Arg: vfB(arg)}}
						k++
						exts = append(exts, e)
						return e.Mime
					}
					for i, n := 0, rapid.IntRange(3, 7).Draw(t, "trunk"); i < n; i++ {
						parent = add(parent, "VF", "")
					}
					pa, pb := add(parent, "VFa", "a"), add(parent, "VFb", "b")
					for i, n := 0, rapid.IntRange(1, 4).Draw(t, "branchdepth"); i < n; i++ {
						pa, pb = add(pa, "VFa", "a"), add(pb, "VFb", "b")
					}
					body := rapid.SampledFrom([]string{"text body", "PK\x03\x04rest", "{\"a\":1}"}).Draw(t, "dtbody")
					x = []byte(rapid.SampledFrom([]string{"VFa ", "VFb ", "VF ", ""}).Draw(t, "branch") + body)
					if strings.HasPrefix(body, "PK") {
						x = append([]byte(body), x[:len(x)-len(body)]...)
					}
					return c03Case{X: x, Limit: 0, Exts: exts}
				}
				if rapid.IntRange(0, 9).Draw(t, "deepchain") == 0 {
					parent := rapid.SampledFrom([]string{"", "text/plain", "application/zip"}).Draw(t, "chainroot")
					for i, n := 0, rapid.IntRange(6, 30).Draw(t, "chaindepth"); i < n; i++ {
						e := vfExt{Parent: parent, Mime: fmt.Sprintf("application/x-verif-%d", i), Ext: fmt.Sprintf(".vf%d", i), Pred: vfPred{Kind: "always"}}
						exts = append(exts, e)
						parent = e.Mime
					}
				} else {
					for i, n := 0, rapid.IntRange(1, 5).Draw(t, "next"); i < n; i++ {
						e := vfGenExt(t, i, exts)
						if rapid.IntRange(0, 14).Draw(t, "ctlname") == 0 {
							// a name read from a file with its line end, a tab in a parameter ...: still a registration
							old := e.Mime
				e.Mime += rapid.SampledFrom([]string{"\r", "\n", "\r\n", ";\tv=1", "\x7f", " "}).Draw(t, "ctl")
				kept := e.Aliases[:0:0]
				for _, al := range e.Aliases {
					if al != old {
						kept = append(kept, al)
					}
				}
				e.Aliases = kept
						}
						exts = append(exts, e)
					}
				}
				return c03Case{X: x, Limit: vfGenLimit(t, len(x)), Exts: exts, OnResult: rapid.IntRange(0, 3).Draw(t, "onresult") == 0}
			}})
	}
}
