//go:build verif

package mimetype

import (
	"bytes"
	ejson "encoding/json"
	"fmt"
	"os"
	"runtime"
	"runtime/debug"
	"strings"
	"path/filepath"
	"sync"
	"syscall"
	"testing"

	"github.com/gabriel-vasile/mimetype/internal/charset"
	ijson "github.com/gabriel-vasile/mimetype/internal/json"
	"github.com/gabriel-vasile/mimetype/internal/magic"
	"pgregory.net/rapid"
)

// C04 — detection is a pure function of the examined header.
//
// hist : every step of a generated call history must return what the same call returns from
//        a history-free state (baseline taken right after two GCs, which empty both sync.Pools).
// conc : the same histories on 2-4 goroutines (fixed limit).
// tail : bytes beyond the limit never matter.
// immut: the caller's buffer (up to its capacity) is never modified.

type c04Step struct {
	Op    string `json:"op"` // detect | reader | readerr | parse | csv | tsv | ndjson
	I     int    `json:"i"`
	Limit uint32 `json:"limit"`
	Query string `json:"q,omitempty"`
}

type c04Case struct {
	Pool       []vfB     `json:"pool"`
	Steps      []c04Step `json:"steps"`
	Goroutines int       `json:"goroutines"`
	Reuse      bool      `json:"reuse_buffer"` // sequential only: every input is copied into one reused buffer before the call
	PadTo      int       `json:"pad_to"`       // > 0: inputs are padded to this common length first
	PadByte    byte      `json:"pad_byte"`     // padding byte (0 = NUL; ' ' or '\n' keep text inputs text)
}

func c04Run(pool [][]byte, s c04Step) string {
	x := pool[s.I%len(pool)]
	switch s.Op {
	case "detect":
		SetLimit(s.Limit)
		m := Detect(x)
		return vfChainStr(m)
	case "reader":
		SetLimit(s.Limit)
		m, err := DetectReader(bytes.NewReader(x))
		return fmt.Sprintf("%s err=%v", vfChainStr(m), err)
	case "readerr":
		SetLimit(s.Limit)
		m, err := DetectReader(&c02FailReader{data: x, at: len(x) / 2})
		return fmt.Sprintf("%s err=%v", vfChainStr(m), err)
	case "parse":
		h := vfHeader(x, s.Limit)
		p, i, ft, qs := ijson.Parse(s.Query, h)
		return fmt.Sprintf("parse %d %d %d %v", p, i, ft, qs)
	case "csv":
		return fmt.Sprint(magic.Csv(vfHeader(x, s.Limit), s.Limit))
	case "tsv":
		return fmt.Sprint(magic.Tsv(vfHeader(x, s.Limit), s.Limit))
	case "ndjson":
		return fmt.Sprint(magic.NdJSON(vfHeader(x, s.Limit), s.Limit))
	}
	return "?"
}

func c04Key(s c04Step, n int) string {
	return fmt.Sprintf("%s/%d/%d/%s", s.Op, s.I%n, s.Limit, s.Query)
}

func c04Check(c c04Case) vfResult {
	var r vfResult
	defer SetLimit(defaultLimit)
	pool := make([][]byte, len(c.Pool))
	maxLen := 0
	for i := range c.Pool {
		pool[i] = []byte(c.Pool[i])
		if c.PadTo > len(pool[i]) {
			pad := make([]byte, c.PadTo-len(pool[i]))
			if c.PadByte != 0 {
				for j := range pad {
					pad[j] = c.PadByte
				}
			}
			pool[i] = append(append([]byte(nil), pool[i]...), pad...)
		}
		if len(pool[i]) > maxLen {
			maxLen = len(pool[i])
		}
	}
	// the baseline is always taken on separately allocated inputs
	shared := make([]byte, maxLen)
	reusePool := func(s c04Step) [][]byte {
		if !c.Reuse || c.Goroutines > 1 {
			return pool
		}
		x := pool[s.I%len(pool)]
		n := copy(shared, x)
		alt := make([][]byte, len(pool))
		copy(alt, pool)
		alt[s.I%len(pool)] = shared[:n]
		return alt
	}
	base := map[string]string{}
	for _, s := range c.Steps {
		k := c04Key(s, len(pool))
		if _, ok := base[k]; ok {
			continue
		}
		runtime.GC()
		runtime.GC()
		base[k] = c04Run(pool, s)
	}
	runtime.GC()
	runtime.GC()
	jsonFamily := func(s c04Step) bool {
		return s.Op != "csv" && s.Op != "tsv" && ijson.LooksLikeObjectOrArray(vfHeader(pool[s.I%len(pool)], s.Limit)) || s.Op == "ndjson"
	}
	reuse := false
	if c.Goroutines <= 1 {
		var prev *c04Step
		for si := range c.Steps {
			s := c.Steps[si]
			got := c04Run(reusePool(s), s)
			if want := base[c04Key(s, len(pool))]; got != want {
				hist := ""
				for _, p := range c.Steps[:si] {
					hist += fmt.Sprintf("%s(pool[%d],limit=%d,%s) ", p.Op, p.I%len(pool), p.Limit, p.Query)
				}
				r.Err = fmt.Errorf("step %d %s(pool[%d]=%s, limit %d, q=%q) returned %q, from a fresh state it returns %q; history: %s", si, s.Op, s.I%len(pool), vfQ(pool[s.I%len(pool)]), s.Limit, s.Query, got, want, hist)
				return r
			}
			if prev != nil {
				if jsonFamily(*prev) && jsonFamily(s) && (prev.I%len(pool) != s.I%len(pool) || prev.Limit != s.Limit) {
					reuse = true
				}
				if (prev.Op == "csv" || prev.Op == "tsv" || prev.Op == "detect") && (s.Op == "csv" || s.Op == "tsv") {
					reuse = true
				}
			}
			prev = &c.Steps[si]
		}
		r.Labels = append(r.Labels, "sequential")
		if c.Reuse {
			r.Labels = append(r.Labels, "one-reused-caller-buffer")
			if c.PadTo > 0 {
				r.Labels = append(r.Labels, "equal-length-inputs")
			}
		}
	} else {
		// concurrent: all steps share one limit (the limit is process-global)
		lim := c.Steps[0].Limit
		var wg sync.WaitGroup
		errs := make([]error, c.Goroutines)
		start := make(chan struct{})
		for g := 0; g < c.Goroutines; g++ {
			wg.Add(1)
			go func(g int) {
				defer wg.Done()
				<-start
				for rep := 0; rep < 3; rep++ {
					for si := range c.Steps {
						s := c.Steps[(si+g*3)%len(c.Steps)]
						s.Limit = lim
						got := c04Run(pool, s)
						if want := base[c04Key(s, len(pool))]; got != want {
							errs[g] = fmt.Errorf("goroutine %d: %s(pool[%d]=%s, limit %d, q=%q) returned %q, from a fresh state it returns %q", g, s.Op, s.I%len(pool), vfQ(pool[s.I%len(pool)]), s.Limit, s.Query, got, want)
							return
						}
					}
				}
			}(g)
		}
		close(start)
		wg.Wait()
		for _, e := range errs {
			if e != nil {
				r.Err = e
				return r
			}
		}
		reuse = true
		r.Labels = append(r.Labels, "concurrent")
	}
	r.N = int64(len(c.Steps))
	r.Nontrivial = reuse
	if reuse {
		r.Labels = append(r.Labels, "pool-reuse-likely")
	}
	cb, _ := ejson.Marshal(c)
	r.Hash = vfHash(cb)
	return r
}

func c04DeepKeys(n int, close bool) string {
	var sb strings.Builder
	for i := 0; i < n; i++ {
		sb.WriteString(`{"k":`)
	}
	sb.WriteString("1")
	if close {
		sb.WriteString(strings.Repeat("}", n))
	}
	return sb.String()
}

var c04Special = []string{
	`{"type":"Feature","geometry":null}`, `{"type":"Nope"}`, `{"log":{"version":"1.2","entries":[]}}`, `{"log":[1]}`,
	`{"asset":{"version":"2.0"}}`, `{"asset":{"version":"9"}}`, `{"a":[1,2,{"b":[3]}],"type":"Point"}`,
	`{"type":"Feature","x":`, `{"type":"Fea`, `{"log":{"version"`, `[[[[[[`, `{"a":{"b":{"c":[`, `[1,2,`, `{"k":tru`, `{"type":"Feature"}garbage`, `{"type":"Feature",}`,
	`[`, `{`, `[]`, `{}`, ` `, `a`, ``, "1", `"s"`, "null",
	"a,b,c\n1,2,3\n4,5,6\n", "a\tb\n1\t2\n3\t4\n", "\"q,1\",\"x\"\"y\",z\n1,2,3\n", "a,b\n1,2,3\n", "\"unterminated,quote\n1,2\n", "#c\na;b\n",
	"{\"a\":1}\n{\"b\":2}\n", "{\"a\":1}\n{\"b\":\n", "[1]\n\n[2]\n",
	"<html><head><meta charset=\"ISO-8859-1\"></head>", "<?xml version=\"1.0\" encoding=\"KOI8-R\"?><a/>", "plain text caf\xc3\xa9", "caf\xe9",
}

func c04GenPool(t *rapid.T) []vfB {
	n := rapid.IntRange(3, 8).Draw(t, "npool")
	var pool []vfB
	// family pools: all inputs of one family, so that whatever one detection leaves behind
	// (pooled scratch state, a memo keyed on the caller's buffer, ...) is relevant to the next
	switch rapid.IntRange(0, 7).Draw(t, "family") {
	case 0:
		for i := 0; i < n; i++ {
			pool = append(pool, vfB(c03Zip(t)))
		}
		return pool
	case 1:
		for i := 0; i < n; i++ {
			pool = append(pool, c10Gen(t).Doc)
		}
		return pool
	case 2:
		for i := 0; i < n; i++ {
			pool = append(pool, c13GenFwd(t).Doc)
		}
		return pool
	case 3:
		for i := 0; i < n; i++ {
			pool = append(pool, vfB(c03Ole(t)))
		}
		return pool
	case 4: // markup / script documents that differ in their leading white space
		for i := 0; i < n; i++ {
			lead := rapid.SampledFrom([]string{"", " ", "\n", "  \n", "\t\t", "\r\n\r\n", "   ", "\x0c"}).Draw(t, "lead")
			body := rapid.SampledFrom([]string{"<html><head><title>t</title></head>", "<?xml version=\"1.0\"?><gpx xmlns=\"http://www.topografix.com/GPX/1/1\">", "<?xml version=\"1.0\"?><rss version=\"2.0\">",
				"<!DOCTYPE html><p>x</p>", "<svg xmlns=\"http://www.w3.org/2000/svg\"/>", "#!/usr/bin/env python\nprint(1)\n", "<?php echo 1;", "{\"type\":\"Feature\"}", "plain words"}).Draw(t, "body")
			pool = append(pool, vfB(lead+body))
		}
		return pool
	}
	for i := 0; i < n; i++ {
		switch rapid.IntRange(0, 9).Draw(t, "pk") {
		case 0, 1, 2, 3:
			pool = append(pool, vfB(rapid.SampledFrom(c04Special).Draw(t, "sp")))
		case 4:
			pool = append(pool, c10Gen(t).Doc)
		case 5:
			pool = append(pool, c13GenFwd(t).Doc)
		case 6: // deep key path (> 128) complete or aborted, or at the recursion cap
			d := rapid.SampledFrom([]int{3, 100, 129, 200, 4095, 4096, 4097, 5000}).Draw(t, "deep")
			pool = append(pool, vfB(c04DeepKeys(d, rapid.Bool().Draw(t, "close"))))
		case 7:
			if rapid.Bool().Draw(t, "zipin") {
				pool = append(pool, vfB(c03Zip(t)))
			} else {
				pool = append(pool, c09GenMutant(t).H)
			}
		case 8:
			pool = append(pool, vfB(strings.Repeat(rapid.SampledFrom([]string{"a,b,c\n", "{\"a\":[1,2,3]}\n", "[", "x"}).Draw(t, "rep"), rapid.IntRange(1, 3000).Draw(t, "reps"))))
		default:
			pool = append(pool, vfB(vfGenAnyInput(t)))
		}
	}
	return pool
}

func c04Gen(conc bool) func(t *rapid.T) c04Case {
	return func(t *rapid.T) c04Case {
		var c c04Case
		c.Pool = c04GenPool(t)
		ns := rapid.IntRange(3, 14).Draw(t, "nsteps")
		limits := []uint32{0, 3072}
		for i := 0; i < 2; i++ {
			p := c.Pool[rapid.IntRange(0, len(c.Pool)-1).Draw(t, "lp")]
			limits = append(limits, vfGenLimit(t, len(p)))
		}
		for i := range limits {
			if limits[i] > 1<<20 {
				limits[i] = 1 << 20
			}
		}
		for i := 0; i < ns; i++ {
			s := c04Step{
				Op:    rapid.SampledFrom([]string{"detect", "detect", "detect", "reader", "readerr", "parse", "parse", "csv", "tsv", "ndjson"}).Draw(t, "op"),
				I:     rapid.IntRange(0, len(c.Pool)-1).Draw(t, "i"),
				Limit: rapid.SampledFrom(limits).Draw(t, "lim"),
			}
			if s.Op == "parse" {
				s.Query = rapid.SampledFrom([]string{ijson.QueryNone, ijson.QueryGeo, ijson.QueryHAR, ijson.QueryGLTF}).Draw(t, "q")
			}
			c.Steps = append(c.Steps, s)
		}
		c.Goroutines = 1
		if !conc && rapid.Bool().Draw(t, "reuse") {
			c.Reuse = true
			if rapid.Bool().Draw(t, "pad") {
				for _, p := range c.Pool {
					if len(p) > c.PadTo && len(p) <= 4096 {
						c.PadTo = len(p)
					}
				}
				c.PadByte = rapid.SampledFrom([]byte{0, ' ', '\n'}).Draw(t, "padbyte")
			}
		}
		if conc {
			c.Goroutines = rapid.IntRange(2, 4).Draw(t, "g")
			for i := range c.Steps {
				c.Steps[i].Limit = c.Steps[0].Limit
			}
		}
		return c
	}
}

// ---- tail: bytes past the limit

type c04Tail struct {
	H  vfB `json:"h"`
	T1 vfB `json:"t1"`
	T2 vfB `json:"t2"`
}

func c04TailCheck(c c04Tail) vfResult {
	var r vfResult
	if len(c.H) == 0 {
		return vfResult{Skip: "empty-header(limit 0 means unlimited)"}
	}
	a := append(append([]byte(nil), c.H...), c.T1...)
	b := append(append([]byte(nil), c.H...), c.T2...)
	lim := uint32(len(c.H))
	ma, mb := vfDetectAt(a, lim), vfDetectAt(b, lim)
	if !c05Same(ma, mb) {
		r.Err = fmt.Errorf("limit %d: header %s followed by %s gives %s, followed by %s gives %s", lim, vfQ(c.H), vfQ(c.T1), vfChainStr(ma), vfQ(c.T2), vfChainStr(mb))
	}
	SetLimit(lim)
	ra, _ := DetectReader(bytes.NewReader(a))
	SetLimit(defaultLimit)
	if r.Err == nil && !c05Same(ra, mb) {
		r.Err = fmt.Errorf("limit %d: DetectReader over header+tail1 gives %s, Detect over header+tail2 gives %s", lim, vfChainStr(ra), vfChainStr(mb))
	}
	r.Nontrivial = !bytes.Equal(c.T1, c.T2)
	r.Hash = vfHash(c.H, c.T1, c.T2)
	return r
}

// ---- repeat: the same call, many times

type c04Repeat struct {
	X     vfB    `json:"x"`
	Limit uint32 `json:"limit"`
}

// c04MetaSoup writes markup whose tags carry several, possibly conflicting, attributes in
// arbitrary order (a meta with charset AND content, repeated attributes, two declarations).
func c04MetaSoup(t *rapid.T) []byte {
	var sb strings.Builder
	sb.WriteString(rapid.SampledFrom([]string{"", "<!DOCTYPE html>", "<html><head>", "\xef\xbb\xbf<html>"}).Draw(t, "open"))
	attrs := []string{"charset=koi8-r", "charset=\"iso-8859-5\"", "content=\"text/html; charset=windows-1251\"", "content='text/html;charset=big5'", "http-equiv=\"Content-Type\"", "http-equiv=refresh",
		"name=\"description\"", "CHARSET=shift_jis", "content=\"charset=euc-kr\"", "data-x=\"charset=x\"", "lang=en"}
	for i, n := 0, rapid.IntRange(1, 3).Draw(t, "ntags"); i < n; i++ {
		sb.WriteString("<" + rapid.SampledFrom([]string{"meta", "META", "meta ", "link", "body"}).Draw(t, "tag"))
		for j, k := 0, rapid.IntRange(1, 5).Draw(t, "nattrs"); j < k; j++ {
			sb.WriteString(" " + rapid.SampledFrom(attrs).Draw(t, "attr"))
		}
		sb.WriteString(rapid.SampledFrom([]string{">", "/>", " >"}).Draw(t, "close"))
	}
	sb.WriteString(rapid.SampledFrom([]string{"", "</head>", "<body>caf\xe9</body>", "text"}).Draw(t, "rest"))
	return []byte(sb.String())
}

func c04RepeatCheck(c c04Repeat) vfResult {
	var r vfResult
	x := []byte(c.X)
	if string(x) == "slice longer than 4 GiB" { // replay of the special cases
		if r.Err = c04Huge32(); r.Err == nil {
			r.Err = c04Descriptors()
		}
		if r.Err == nil {
			r.Err = c04SameFile()
		}
		return r
	}
	defer SetLimit(defaultLimit)
	SetLimit(c.Limit)
	first := vfChainStr(Detect(x))
	for i := 1; i < 24; i++ {
		var m *MIME
		if i%2 == 0 || c.Limit > 1<<20 { // DetectReader allocates `limit` bytes
			m = Detect(x)
		} else {
			m, _ = DetectReader(bytes.NewReader(x))
		}
		if got := vfChainStr(m); got != first {
			r.Err = fmt.Errorf("call %d on the same %d bytes under limit %d answers %s, the first call answered %s; x=%s", i+1, len(x), c.Limit, got, first, vfQ(x))
			return r
		}
	}
	r.Nontrivial = len(x) > 0
	r.Hash = vfHash(x, vfHashU(uint64(c.Limit)))
	return r
}

// c04Descriptors: hundreds of detections that FAIL (a directory, a missing file, a failing
// reader) must not use up anything later detections need: with the descriptor limit lowered
// and the garbage collector off, a regular file is still detected afterwards.
func c04Descriptors() error {
	var old syscall.Rlimit
	if err := syscall.Getrlimit(syscall.RLIMIT_NOFILE, &old); err != nil {
		return nil
	}
	low := old
	if low.Cur > 160 {
		low.Cur = 160
	}
	if err := syscall.Setrlimit(syscall.RLIMIT_NOFILE, &low); err != nil {
		return nil
	}
	defer syscall.Setrlimit(syscall.RLIMIT_NOFILE, &old)
	gc := debug.SetGCPercent(-1)
	defer debug.SetGCPercent(gc)
	dir := vfScratchDir()
	content := []byte("\x89PNG\r\n\x1a\n\x00\x00\x00\x0dIHDR after many failed detections")
	p := vfWriteFile("c04fd", content, 0)
	for i := 0; i < 400; i++ {
		if _, err := DetectFile(dir); err == nil {
			return fmt.Errorf("DetectFile on a directory returned no error")
		}
		_, _ = DetectFile(filepath.Join(dir, "no-such-file"))
		_, _ = DetectReader(&c02FailReader{data: []byte("abc"), at: 1})
	}
	m, err := DetectFile(p)
	if err != nil || vfChainStr(m) != vfChainStr(Detect(content)) {
		return fmt.Errorf("after 400 failed DetectFile calls (descriptor limit %d, no garbage collection in between) DetectFile on a regular file gives (%s, %v), Detect on its bytes %s", low.Cur, vfChainStr(m), err, vfChainStr(Detect(content)))
	}
	return nil
}

// c04SameFile: a file replaced by other content of the same size, with its modification time
// restored (cp -p, rsync -t), is a different input.
func c04SameFile() error {
	pairs := [][2][]byte{
		{[]byte("a,b,c\n1,2,3\n4,5,6\n7,8,9\n"), []byte("a,b,c\n1,2,3\n4,\x005,6\n7,8,9\n")[:24]},
		{[]byte("{\"type\":\"Feature\",\"x\":1}"), []byte("{\"typo\":\"Feature\",\"x\":1}")},
		{[]byte("\x89PNG\r\n\x1a\n\x00\x00\x00\x0dIHDR"), []byte("plain text, same len")},
		{[]byte("PK\x03\x04" + strings.Repeat("\x00", 40)), []byte("%PDF-1.4" + strings.Repeat(" ", 36))},
	}
	defer SetLimit(defaultLimit)
	for _, limit := range []uint32{defaultLimit, 0, 16} {
		SetLimit(limit)
		for i, pr := range pairs {
			a, b := pr[0], pr[1]
			for len(b) < len(a) {
				b = append(b, ' ')
			}
			b = b[:len(a)]
			p := filepath.Join(vfScratchDir(), fmt.Sprintf("c04same-%d.dat", i))
			if err := os.WriteFile(p, a, 0o644); err != nil {
				panic(err)
			}
			st, _ := os.Stat(p)
			if _, err := DetectFile(p); err != nil {
				return fmt.Errorf("DetectFile: %v", err)
			}
			if err := os.WriteFile(p, b, 0o644); err != nil {
				panic(err)
			}
			_ = os.Chtimes(p, st.ModTime(), st.ModTime())
			m, err := DetectFile(p)
			if want := Detect(b); err != nil || vfChainStr(m) != vfChainStr(want) {
				return fmt.Errorf("a file detected once, then overwritten with %d other bytes and given its old modification time back, is reported as (%s, %v) under limit %d; Detect on its bytes says %s", len(b), vfChainStr(m), err, limit, vfChainStr(want))
			}
		}
	}
	return nil
}

// c04Huge32: a slice longer than 4 GiB (only its first pages are ever touched): lengths do
// not fit 32 bits, limits do.
func c04Huge32() error {
	avail := 0
	if b, err := os.ReadFile("/proc/meminfo"); err == nil {
		for _, l := range strings.Split(string(b), "\n") {
			if strings.HasPrefix(l, "MemAvailable:") {
				fmt.Sscanf(strings.TrimSpace(strings.TrimPrefix(l, "MemAvailable:")), "%d", &avail)
			}
		}
	}
	if avail < 12<<20 { // kB
		return nil
	}
	defer SetLimit(defaultLimit)
	for _, extra := range []int{100, 3072, 5000} {
		big := make([]byte, 1<<32+extra)
		for i := copy(big, "plain text header, nothing else in the first kilobytes\n"); i < 6000; i++ {
			big[i] = 'a'
		}
		big[4000] = 0x01 // beyond the limit below
		for _, L := range []uint32{3072, 200} {
			SetLimit(L)
			got, want := vfChainStr(Detect(big)), vfChainStr(Detect(big[:L]))
			if !strings.HasPrefix(want, "text/plain") {
				return fmt.Errorf("harness: the %d-byte header is not text (%s)", L, want)
			}
			if got != want {
				return fmt.Errorf("Detect on a %d-byte slice (2^32+%d) under limit %d answers %s, on its first %d bytes %s", len(big), extra, L, got, L, want)
			}
		}
		big = nil
		debug.FreeOSMemory()
	}
	return nil
}

// ---- immut: the caller's buffer is never modified

type c04Immut struct {
	X     vfB    `json:"x"`
	Limit uint32 `json:"limit"`
	Extra int    `json:"extra_cap"`
}

func c04ImmutCheck(c c04Immut) vfResult {
	var r vfResult
	x := []byte(c.X)
	backing := make([]byte, len(x)+c.Extra)
	for i := range backing {
		backing[i] = 0xA5
	}
	copy(backing, x)
	in := backing[:len(x)]
	ref := append([]byte(nil), backing...)
	same := func(what string) bool {
		if !bytes.Equal(backing, ref) {
			for i := range backing {
				if backing[i] != ref[i] {
					r.Err = fmt.Errorf("%s modified the caller's buffer at index %d (len %d, cap %d): %#x -> %#x; x=%s limit=%d", what, i, len(x), len(backing), ref[i], backing[i], vfQ(x), c.Limit)
					break
				}
			}
			return false
		}
		return true
	}
	SetLimit(c.Limit)
	defer SetLimit(defaultLimit)
	Detect(in)
	if !same("Detect") {
		return r
	}
	h := in
	if c.Limit > 0 && len(in) > int(c.Limit) {
		h = in[:c.Limit]
	}
	for _, n := range root.flatten() {
		n.detector(h, c.Limit)
		if !same("signature check " + n.mime + n.extension) {
			return r
		}
	}
	charset.FromPlain(h)
	charset.FromHTML(h)
	charset.FromXML(h)
	if !same("charset sniffing") {
		return r
	}
	r.Nontrivial = c.Extra > 0
	if c.Limit > 0 && len(in) > int(c.Limit) {
		r.Labels = append(r.Labels, "limit<len")
	}
	r.Hash = vfHash(x, vfHashU(uint64(c.Limit), uint64(c.Extra)))
	return r
}

func TestVerif_C04(t *testing.T) {
	defer vfStats.dump()
	sample := func(c c04Case) any {
		var ops []string
		for _, s := range c.Steps {
			ops = append(ops, fmt.Sprintf("%s(%d,%d,%s)", s.Op, s.I, s.Limit, s.Query))
		}
		var heads []string
		for _, p := range c.Pool {
			heads = append(heads, vfQ(p[:min(len(p), 40)]))
		}
		return map[string]any{"pool": heads, "steps": ops, "goroutines": c.Goroutines}
	}
	if vfOnlySub("procfs") && !vfReplayMode() && vfShard() == 0 {
		// the answer depends on the bytes, not on file metadata (stat size 0 on procfs)
		n, err := vfProcfs(func(path string, content []byte, viaFile *MIME, derr error) error {
			want := Detect(content)
			if derr != nil || !c05Same(viaFile, want) {
				return fmt.Errorf("DetectFile(%s) = (%s, %v) although the file delivers %d bytes on which Detect says %s", path, vfChainStr(viaFile), derr, len(content), vfChainStr(want))
			}
			return nil
		})
		var r vfResult
		r.Nontrivial, r.Labels, r.Hash, r.Err = n > 0, []string{"procfs"}, vfHash([]byte("procfs")), err
		vfStats.record(r, func() any { return map[string]any{"sub": "procfs", "files": n} })
		if err != nil {
			vfEnumFail(t, "C04", "tail", c04Tail{H: vfB("procfs")}, err)
			return
		}
	}
	if vfOnlySub("hist") {
		vfRun(t, vfSub[c04Case]{Prop: "C04", Name: "hist", Checks: vfN(2500, 64000), Gen: c04Gen(false), Check: c04Check, Sample: sample})
	}
	if t.Failed() {
		return
	}
	if vfOnlySub("conc") {
		vfRun(t, vfSub[c04Case]{Prop: "C04", Name: "conc", Checks: vfN(800, 24000), Gen: c04Gen(true), Check: c04Check, Sample: sample})
	}
	if t.Failed() {
		return
	}
	if vfOnlySub("tail") {
		vfRun(t, vfSub[c04Tail]{Prop: "C04", Name: "tail", Checks: vfN(40000, 3000000), Check: c04TailCheck,
			Gen: func(t *rapid.T) c04Tail {
				h := vfGenAnyInput(t)
				if rapid.IntRange(0, 39).Draw(t, "hugeheader") == 0 {
					// headers (= limits) above 64 KiB, where growing read buffers change their step
					kind := rapid.SampledFrom([]string{"json-array", "csv", "text-latin-tail", "filler"}).Draw(t, "hk")
					h = vfBig(kind, rapid.SampledFrom([]int{65537, 70001, 100000, 300000}).Draw(t, "hn"))
					if kind == "text-latin-tail" {
						h = h[:len(h)-30] // keep the header ASCII; the tail decides nothing
					}
					return c04Tail{H: h, T1: vfB("\xe9\x85 tail one \x00\x01"), T2: vfB(rapid.SampledFrom([]string{"", "]", "plain", "\xff\xfe"}).Draw(t, "t2"))}
				}
				if rapid.Bool().Draw(t, "cutseed") && len(h) > 1 {
					h = h[:rapid.IntRange(1, len(h)).Draw(t, "hl")]
				}
				tail := func(l string) vfB {
					switch rapid.IntRange(0, 3).Draw(t, l+"k") {
					case 0:
						return nil
					case 1:
						return vfB(vfGenTextish(t))
					case 2:
						return vfB(vfGenSeed(t))
					}
					return rapid.SliceOfN(rapid.Byte(), 0, 40).Draw(t, l)
				}
				return c04Tail{H: h, T1: tail("t1"), T2: tail("t2")}
			}})
	}
	if t.Failed() {
		return
	}
	if vfOnlySub("repeat") {
		if !vfReplayMode() && vfShard() == 0 {
			err := c04Huge32()
			if err == nil {
				err = c04Descriptors()
			}
			if err == nil {
				err = c04SameFile()
			}
			var r vfResult
			r.Nontrivial, r.Labels, r.Hash, r.Err = true, []string{"slice-longer-than-4GiB"}, vfHash([]byte("huge32")), err
			vfStats.record(r, func() any { return map[string]any{"sub": "repeat", "case": "2^32+k byte slices under limits 3072 and 200"} })
			if err != nil {
				vfEnumFail(t, "C04", "repeat", c04Repeat{X: vfB("slice longer than 4 GiB")}, err)
				return
			}
		}
		vfRun(t, vfSub[c04Repeat]{Prop: "C04", Name: "repeat", Checks: vfN(4000, 400000), Check: c04RepeatCheck,
			Gen: func(t *rapid.T) c04Repeat {
				var x []byte
				switch rapid.IntRange(0, 6).Draw(t, "k") {
				case 0, 1:
					x = c04MetaSoup(t)
				case 2:
					x = []byte(c12GenHTML(t).Doc)
				case 3:
					x = []byte(c12GenXML(t).Doc)
				case 4:
					x = []byte(c10Gen(t).Doc)
				case 5:
					x = []byte(c13GenFwd(t).Doc)
				default:
					x = vfGenAnyInput(t)
				}
				return c04Repeat{X: x, Limit: vfGenLimit(t, len(x))}
			}})
	}
	if t.Failed() {
		return
	}
	if vfOnlySub("immut") {
		vfRun(t, vfSub[c04Immut]{Prop: "C04", Name: "immut", Checks: vfN(20000, 1500000), Check: c04ImmutCheck,
			Gen: func(t *rapid.T) c04Immut {
				var x []byte
				switch rapid.IntRange(0, 4).Draw(t, "k") {
				case 4:
					x = vfTarWindow(t, vfGenAnyInput(t))
				case 0:
					x = []byte(c12GenHTML(t).Doc)
				case 1:
					x = []byte(c02Gen(t).Doc)
				default:
					x = vfGenAnyInput(t)
				}
				return c04Immut{X: x, Limit: vfGenLimit(t, len(x)), Extra: rapid.SampledFrom([]int{0, 1, 16, 64}).Draw(t, "extra")}
			}})
	}
}
