//go:build verif

package mimetype

import (
	"bytes"
	"context"
	"errors"
	"fmt"
	"io"
	"io/fs"
	"net"
	"os"
	"path/filepath"
	"strings"
	"syscall"
	"testing"

	"pgregory.net/rapid"
)

// C05 — bytes, reader and file entry points agree; reads stop at the limit; errors surface.

type c05Case struct {
	X           vfB    `json:"x"`
	Limit       uint32 `json:"limit"`
	Chunks      []int  `json:"chunks"`        // successive read sizes (cycled); 0 = a zero-byte read
	EOFWithData bool   `json:"eof_with_data"` // last data returned together with io.EOF
	FaultAt     int    `json:"fault_at"`      // -1: none; else the reader fails once this many bytes were delivered
	FaultData   bool   `json:"fault_with_data"`
	File        bool   `json:"file"`
	Prime       bool   `json:"prime,omitempty"` // a reader detection under PrevLimit runs immediately before
	PrevLimit   uint32 `json:"prev_limit,omitempty"`
	ErrKind     int    `json:"err_kind,omitempty"` // index into c05Errs
}

var errC05 = errors.New("verif: injected read error")

// c05Errs are the failures a reader can inject: a plain error, and errors of other types that
// merely wrap (Unwrap) an end-of-input sentinel - a transport reporting "connection lost:
// unexpected EOF" has failed, it has not reached the end of the input.
type c05Wrapped struct{ inner error }

func (e *c05Wrapped) Error() string { return "verif: connection reset: " + e.inner.Error() }
func (e *c05Wrapped) Unwrap() error { return e.inner }

// c05Timeout is a transport error with the usual Timeout/Temporary methods.
type c05Timeout struct{}

func (c05Timeout) Error() string   { return "verif: i/o timeout" }
func (c05Timeout) Timeout() bool   { return true }
func (c05Timeout) Temporary() bool { return true }

var c05Errs = []error{errC05, os.ErrDeadlineExceeded, context.DeadlineExceeded, c05Timeout{}, &net.OpError{Op: "read", Net: "tcp", Err: c05Timeout{}}, syscall.EAGAIN, syscall.EINTR, io.ErrNoProgress, io.ErrClosedPipe, io.ErrShortBuffer, fs.ErrClosed, &c05Wrapped{io.ErrUnexpectedEOF}, &c05Wrapped{io.EOF}, &fs.PathError{Op: "read", Path: "verif", Err: io.ErrUnexpectedEOF}, fmt.Errorf("verif: short body: %w", io.ErrUnexpectedEOF)}

func (c *c05Case) err() error { return c05Errs[c.ErrKind%len(c05Errs)] }

type c05Reader struct {
	c       *c05Case
	off     int
	ci      int
	reads   int
	handed  int
	overreq bool
	zeroed  bool
}

func (r *c05Reader) Read(p []byte) (int, error) {
	r.reads++
	if len(p) == 0 {
		return 0, nil
	}
	data := []byte(r.c.X)
	end := len(data)
	if r.c.FaultAt >= 0 && r.c.FaultAt < end {
		end = r.c.FaultAt
	}
	if r.off >= end {
		if r.c.FaultAt >= 0 && r.off >= r.c.FaultAt {
			return 0, r.c.err()
		}
		return 0, io.EOF
	}
	want := 1 << 30
	if len(r.c.Chunks) > 0 {
		want = r.c.Chunks[r.ci%len(r.c.Chunks)]
		r.ci++
	}
	if want == 0 {
		if !r.zeroed {
			r.zeroed = true
			return 0, nil
		}
		want = 1
	}
	r.zeroed = false
	n := min(want, len(p), end-r.off)
	copy(p, data[r.off:r.off+n])
	r.off += n
	r.handed += n
	if r.off == end {
		if r.c.FaultAt >= 0 && end == r.c.FaultAt {
			if r.c.FaultData {
				return n, r.c.err()
			}
		} else if r.c.EOFWithData {
			return n, io.EOF
		}
	}
	return n, nil
}

func c05Same(a, b *MIME) bool {
	return vfChainEq2(vfChain(a), vfChain(b))
}

func c05IsErrMIME(m *MIME) bool {
	return m != nil && m.String() == "application/octet-stream" && m.Extension() == "" && m.Parent() == nil
}

func c05Check(c c05Case) vfResult {
	var r vfResult
	x := []byte(c.X)
	defer SetLimit(defaultLimit)
	if c.Prime {
		SetLimit(c.PrevLimit)
		_, _ = DetectReader(bytes.NewReader(x))
		r.Labels = append(r.Labels, "primed")
	}
	SetLimit(c.Limit)
	want := Detect(x)
	r.Hash = vfHash(x, vfHashU(uint64(c.Limit), uint64(c.FaultAt+1), uint64(len(c.Chunks))), []byte(fmt.Sprint(c.Chunks, c.EOFWithData, c.FaultData, c.File, c.Prime, c.PrevLimit)))
	if c.File {
		p := vfWriteFile("c05", x, vfHash(x, vfHashU(uint64(c.Limit))))
		got, err := DetectFile(p)
		if err != nil || !c05Same(got, want) {
			r.Err = fmt.Errorf("DetectFile(%s) = (%s, %v), Detect = %s; limit %d x=%s", p, vfChainStr(got), err, vfChainStr(want), c.Limit, vfQ(x))
		}
		r.Labels = append(r.Labels, "file")
		r.Nontrivial = c.Limit > 0 && int(c.Limit) <= len(x)
		return r
	}
	rd := &c05Reader{c: &c}
	got, err := DetectReader(rd)
	if got == nil {
		r.Err = fmt.Errorf("DetectReader returned nil")
		return r
	}
	// consumption bound
	if c.Limit > 0 && rd.handed > int(c.Limit) {
		r.Err = fmt.Errorf("DetectReader consumed %d bytes with limit %d", rd.handed, c.Limit)
		return r
	}
	// needed = bytes that make the header complete
	needAll := c.Limit == 0 || int(c.Limit) > len(x) // needs to see end of input
	fault := c.FaultAt >= 0 && c.FaultAt <= len(x)
	switch {
	case !fault:
		if err != nil {
			r.Err = fmt.Errorf("conforming reader without fault, but DetectReader returned error %v (limit %d, chunks %v, eofWithData %v)", err, c.Limit, c.Chunks, c.EOFWithData)
			return r
		}
		if !c05Same(got, want) {
			r.Err = fmt.Errorf("DetectReader = %s but Detect = %s (limit %d, chunks %v, eofWithData %v, x=%s)", vfChainStr(got), vfChainStr(want), c.Limit, c.Chunks, c.EOFWithData, vfQ(x))
			return r
		}
		if c.Limit == 0 && rd.handed != len(x) {
			r.Err = fmt.Errorf("limit 0 but only %d of %d bytes consumed", rd.handed, len(x))
			return r
		}
		// (under a non-zero limit the statement gives an upper bound only - checked above; how few
		// bytes an implementation needs is its own business as long as the answer is Detect's)
	case needAll || c.FaultAt < int(c.Limit):
		// failure before the header is complete
		r.Labels = append(r.Labels, "fault-before-complete")
		if err == nil || !errors.Is(err, c.err()) {
			r.Err = fmt.Errorf("reader failed after %d bytes (header incomplete: limit %d, len %d) but DetectReader returned error %v and %s", c.FaultAt, c.Limit, len(x), err, vfChainStr(got))
			return r
		}
		if !c05IsErrMIME(got) {
			r.Err = fmt.Errorf("reader failed after %d bytes but result is %s instead of bare application/octet-stream", c.FaultAt, vfChainStr(got))
			return r
		}
	default:
		// the failure coincides with / follows completion of the header: either outcome is allowed
		r.Labels = append(r.Labels, "fault-at-completion")
		okNormal := err == nil && c05Same(got, want)
		okErr := err != nil && errors.Is(err, c.err()) && c05IsErrMIME(got)
		if !okNormal && !okErr {
			r.Err = fmt.Errorf("fault at %d with limit %d: got (%s, %v); want the normal result %s or octet-stream with the injected error", c.FaultAt, c.Limit, vfChainStr(got), err, vfChainStr(want))
			return r
		}
	}
	if rd.reads >= 2 {
		r.Labels = append(r.Labels, "multi-read")
	}
	if fault {
		r.Labels = append(r.Labels, "fault")
	}
	if c.Limit > 0 && int(c.Limit) <= len(x) {
		r.Labels = append(r.Labels, "limit<=len")
	}
	r.Nontrivial = rd.reads >= 3 || fault || (c.Limit > 0 && int(c.Limit) <= len(x))
	return r
}

func c05Gen(t *rapid.T) c05Case {
	var c c05Case
	c.X = vfGenAnyInput(t)
	if len(c.X) > 6000 {
		c.X = c.X[:6000]
	}
	// tens to hundreds of KB, limits around powers of two
	if rapid.IntRange(0, 39).Draw(t, "huge") == 0 {
		n := rapid.SampledFrom([]int{16384, 20000, 32768, 65536, 65537, 100000, 131072, 262144}).Draw(t, "hugesize")
		if len(c.X) == 0 {
			c.X = append(c.X, "filler "...)
		}
		for len(c.X) < n {
			c.X = append(c.X, c.X...)
		}
		c.X = c.X[:n]
		c.Limit = rapid.SampledFrom([]uint32{0, 16384, 32768, 65535, 65536, 65537, 131072, 1 << 20, uint32(n - 1), uint32(n), uint32(n + 1)}).Draw(t, "hugelim")
		c.Chunks = rapid.SliceOfN(rapid.SampledFrom([]int{1 << 20, 4096, 32768, 65536, 1000}), 0, 3).Draw(t, "hugechunks")
		c.EOFWithData = rapid.Bool().Draw(t, "eofdata")
		c.FaultAt = -1
		if rapid.IntRange(0, 2).Draw(t, "hugefault") == 0 {
			hi := n
			if c.Limit > 0 && int(c.Limit) < hi {
				hi = int(c.Limit)
			}
			c.FaultAt = rapid.IntRange(0, hi).Draw(t, "faultat")
			c.FaultData = rapid.Bool().Draw(t, "faultdata")
			c.ErrKind = rapid.IntRange(0, len(c05Errs)-1).Draw(t, "errkind")
		}
		return c
	}
	// sizes and limits around buffer-growth boundaries (3072 * 2^k, 4096, 8192 ...)
	if rapid.IntRange(0, 5).Draw(t, "sized") == 0 {
		n := rapid.SampledFrom([]int{512, 1024, 3071, 3072, 3073, 3074, 4095, 4096, 4097, 6143, 6144, 6145, 6146, 8192, 12288, 12290}).Draw(t, "size")
		for len(c.X) < n {
			c.X = append(c.X, c.X...)
			if len(c.X) == 0 {
				c.X = append(c.X, 'x')
			}
		}
		c.X = c.X[:n]
		c.Limit = rapid.SampledFrom([]uint32{0, 3072, 4096, 6144, 8192, 16384, uint32(n), uint32(n + 1), uint32(2 * n)}).Draw(t, "sizedlim")
	} else {
		c.Limit = vfGenLimit(t, len(c.X))
	}
	if c.Limit > 1<<22 {
		c.Limit = 1 << uint(rapid.IntRange(12, 22).Draw(t, "biglim"))
	}
	if rapid.Bool().Draw(t, "prime") {
		c.Prime = true
		c.PrevLimit = rapid.SampledFrom([]uint32{0, 1, 2, 16, 64, 512, 3072, 4096, 8192, 1 << 16, 1 << 20}).Draw(t, "prevlimit")
	}
	c.Chunks = rapid.SliceOfN(rapid.SampledFrom([]int{0, 1, 1, 2, 3, 7, 64, 512, 3072, 1 << 20}), 0, 5).Draw(t, "chunks")
	c.EOFWithData = rapid.Bool().Draw(t, "eofdata")
	c.FaultAt = -1
	switch rapid.IntRange(0, 3).Draw(t, "fk") {
	case 0:
		hi := len(c.X)
		if c.Limit > 0 && int(c.Limit) < hi {
			hi = int(c.Limit)
		}
		c.FaultAt = rapid.IntRange(0, hi).Draw(t, "faultat")
		c.FaultData = rapid.Bool().Draw(t, "faultdata")
		c.ErrKind = rapid.IntRange(0, len(c05Errs)-1).Draw(t, "errkind")
	case 1:
		c.File = rapid.Bool().Draw(t, "file")
	}
	return c
}

// c05Special: deterministic entry-point cases outside the generated ranges.
type c05Special struct {
	Kind string `json:"kind"`
	X    vfB    `json:"x,omitempty"`
	Skip int    `json:"skip,omitempty"`
}

func c05SpecialCheck(c c05Special) vfResult {
	var r vfResult
	r.Nontrivial, r.Labels, r.Hash = true, []string{"special-" + c.Kind}, vfHash([]byte(c.Kind), c.X, vfHashU(uint64(c.Skip)))
	defer SetLimit(defaultLimit)
	switch c.Kind {
	case "seekable-at-offset":
		// a seekable reader handed over at a non-zero offset: detection concerns the bytes it
		// still delivers, and must leave the reader at offset + consumed
		env := bytes.Repeat([]byte{0x7e}, c.Skip)
		all := append(env, c.X...)
		p := filepath.Join(vfScratchDir(), "c05-seek.bin")
		if err := os.WriteFile(p, all, 0o644); err != nil {
			panic(err)
		}
		for _, limit := range []uint32{defaultLimit, 0, 100, 1 << 16} {
			SetLimit(limit)
			want := Detect(c.X)
			rd := bytes.NewReader(all)
			_, _ = io.CopyN(io.Discard, rd, int64(c.Skip))
			got, err := DetectReader(rd)
			if err != nil || !c05Same(got, want) {
				r.Err = fmt.Errorf("bytes.Reader positioned at offset %d, limit %d: DetectReader = (%s, %v), Detect on the remaining bytes = %s", c.Skip, limit, vfChainStr(got), err, vfChainStr(want))
				return r
			}
			st := strings.NewReader(string(all))
			_, _ = st.Seek(int64(c.Skip), io.SeekStart)
			got, err = DetectReader(st)
			if err != nil || !c05Same(got, want) {
				r.Err = fmt.Errorf("strings.Reader positioned at offset %d, limit %d: DetectReader = (%s, %v), Detect on the remaining bytes = %s", c.Skip, limit, vfChainStr(got), err, vfChainStr(want))
				return r
			}
			// a reader drained by one detection is at its end for the next one
			if limit == 0 {
				if again, err := DetectReader(st); err != nil || !c05Same(again, Detect(nil)) {
					r.Err = fmt.Errorf("strings.Reader already read to its end by a detection without limit: a second DetectReader = (%s, %v), expected the answer for no bytes", vfChainStr(again), err)
					return r
				}
			}
			f, err := os.Open(p)
			if err != nil {
				panic(err)
			}
			_, _ = io.CopyN(io.Discard, f, int64(c.Skip))
			got, err = DetectReader(f)
			pos, _ := f.Seek(0, io.SeekCurrent)
			f.Close()
			if err != nil || !c05Same(got, want) {
				r.Err = fmt.Errorf("*os.File positioned at offset %d, limit %d: DetectReader = (%s, %v), Detect on the remaining bytes = %s", c.Skip, limit, vfChainStr(got), err, vfChainStr(want))
				return r
			}
			most := int64(c.Skip) + int64(len(c.X))
			if limit > 0 {
				most = int64(c.Skip) + int64(min(len(c.X), int(limit)))
			}
			if pos > most || pos < int64(c.Skip) {
				r.Err = fmt.Errorf("*os.File positioned at offset %d is left at offset %d after DetectReader under limit %d (expected at most %d)", c.Skip, pos, limit, most)
				return r
			}
		}
	case "slice-of-4GiB":
		// a slice of exactly 2^32 (+k) bytes: only the first `limit` bytes may count. The slice is
		// never touched beyond its head (the pages stay unmapped).
		for _, n := range []int{1 << 32, 1<<32 + 1000} {
			big := make([]byte, n)
			copy(big, "plain text head, then zero bytes beyond the limit\n")
			for i := 48; i < 4000; i++ {
				big[i] = 'a'
			}
			for _, lim := range []uint32{defaultLimit, 1000} {
				SetLimit(lim)
				got := Detect(big)
				want := Detect(big[:lim:lim])
				if !c05Same(got, want) {
					r.Err = fmt.Errorf("Detect on a %d-byte slice under limit %d = %s, on its first %d bytes = %s", n, lim, vfChainStr(got), lim, vfChainStr(want))
					return r
				}
			}
		}
	case "file-of-34MiB":
		// whole-file detection (limit 0) of files beyond 32 MiB whose verdict hangs on their last bytes
		for i, content := range [][]byte{append(vfBig("filler", 34<<20), 0x01, '\n'), append(vfBig("json-array", 34<<20), '\n'), append(vfBig("json-array", 34<<20), " x"...)} {
			SetLimit(0)
			want := Detect(content)
			p := filepath.Join(vfScratchDir(), "c05-huge.dat")
			if err := os.WriteFile(p, content, 0o644); err != nil {
				return vfResult{Skip: "no-space-for-34MiB-file"}
			}
			got, err := DetectFile(p)
			os.Remove(p)
			if err != nil || !c05Same(got, want) {
				r.Err = fmt.Errorf("DetectFile without limit on a %d-byte file (case %d) = (%s, %v), Detect on its bytes = %s", len(content), i, vfChainStr(got), err, vfChainStr(want))
				return r
			}
		}
	case "limit-near-2^32":
		// limits just below 2^32 through the reader (DetectReader allocates that much: run once)
		for _, lim := range []uint32{0xffffffff, 0xfffff001} {
			SetLimit(lim)
			want := Detect(c.X)
			got, err := DetectReader(bytes.NewReader(c.X))
			if err != nil || !c05Same(got, want) {
				r.Err = fmt.Errorf("limit %d: DetectReader = (%s, %v), Detect = %s", lim, vfChainStr(got), err, vfChainStr(want))
				return r
			}
		}
	case "procfs":
		n, err := vfProcfs(func(path string, content []byte, viaFile *MIME, derr error) error {
			want := Detect(content)
			if derr != nil || !c05Same(viaFile, want) {
				return fmt.Errorf("DetectFile(%s) = (%s, %v) but Detect on the file's %d bytes = %s", path, vfChainStr(viaFile), derr, len(content), vfChainStr(want))
			}
			return nil
		})
		r.Err = err
		if n == 0 {
			return vfResult{Skip: "no-procfs"}
		}
	}
	return r
}

func TestVerif_C05(t *testing.T) {
	defer vfStats.dump()
	if vfOnlySub("special") {
		vfRun(t, vfSub[c05Special]{Prop: "C05", Name: "special", Check: c05SpecialCheck})
		if !vfReplayMode() && !t.Failed() {
			var cases []c05Special
			for i, s := range vfSeeds() {
				if i%7 == 0 {
					cases = append(cases, c05Special{Kind: "seekable-at-offset", X: s.Data, Skip: []int{1, 4, 512, 4096}[i%4]})
				}
			}
			cases = append(cases, c05Special{Kind: "procfs"}, c05Special{Kind: "slice-of-4GiB"})
			if vfShard() == 2%vfNShards() {
				cases = append(cases, c05Special{Kind: "limit-near-2^32", Skip: -34})
				cases[len(cases)-1].Kind = "file-of-34MiB"
			}
			if vfShard() == 0 {
				cases = append(cases, c05Special{Kind: "limit-near-2^32", X: vfB(`{"type":"Feature","geometry":null}`)})
			}
			for i, c := range cases {
				if i%vfNShards() != vfShard() && c.Kind == "seekable-at-offset" {
					continue
				}
				if c.Kind != "seekable-at-offset" && c.Kind != "limit-near-2^32" && c.Kind != "file-of-34MiB" && vfShard() != 1%vfNShards() {
					continue
				}
				r := c05SpecialCheck(c)
				vfStats.record(r, func() any { return map[string]any{"sub": "special", "kind": c.Kind, "skip": c.Skip, "len": len(c.X)} })
				if r.Err != nil {
					vfEnumFail(t, "C05", "special", c, r.Err)
					return
				}
			}
		}
	}
	if t.Failed() || !vfOnlySub("gen") {
		return
	}
	vfRun(t, vfSub[c05Case]{Prop: "C05", Name: "gen", Checks: vfN(120000, 24000000), Gen: c05Gen, Check: c05Check,
		Sample: func(c c05Case) any {
			return map[string]any{"len": len(c.X), "limit": c.Limit, "chunks": c.Chunks, "eof_with_data": c.EOFWithData, "fault_at": c.FaultAt, "fault_with_data": c.FaultData, "file": c.File, "x": vfQ(c.X[:min(60, len(c.X))])}
		}})
}
