//go:build verif

package mimetype

import (
	"bytes"
	ejson "encoding/json"
	"fmt"
	"os"
	"path/filepath"
	"sync"
	"sync/atomic"
	"testing"

	"pgregory.net/rapid"
)

// C06 — safe for concurrent use. Built with -race.
//
// A case is a concurrent program: 2-8 goroutines, each a list of operations over the public
// API, started behind a barrier and run several times (tree restored in between).
// Oracles: (i) the race detector stays silent (the shard runs with GORACE=halt_on_error; the
// program is journaled before it runs, so a report becomes a VIOLATION with the program as
// replay); (ii) every detection result is one that a sequential execution returns for that
// input under some limit that was in force during the program and some subset of the
// program's extensions; (iii) every Lookup result is nil or a completely built node.

type c06Op struct {
	Op    string `json:"op"` // detect | reader | file | lookup | setlimit | extend
	In    int    `json:"in,omitempty"`
	Name  string `json:"name,omitempty"`
	Limit uint32 `json:"limit,omitempty"`
	Ext   int    `json:"ext,omitempty"` // extend: index into Exts
}

type c06ExtSpec struct {
	Parent   string   `json:"parent"`
	Mime     string   `json:"mime"`
	Ext      string   `json:"ext"`
	Aliases  []string `json:"aliases"`
	SpareCap int      `json:"spare_cap"` // extra capacity of the caller-owned alias slice
}

type c06Case struct {
	Inputs []vfB        `json:"inputs"`
	Exts   []c06ExtSpec `json:"exts"`
	Progs  [][]c06Op    `json:"programs"`
	Runs   int          `json:"runs"`
}

var c06Enabled uint32 = 0xffffffff

func c06Pred(k int) func([]byte, uint32) bool {
	magic := []byte(fmt.Sprintf("VF%d:", k))
	bit := uint32(1) << uint(k)
	return func(raw []byte, _ uint32) bool {
		return atomic.LoadUint32(&c06Enabled)&bit != 0 && bytes.HasPrefix(raw, magic)
	}
}

type c06Obs struct {
	op   c06Op
	res  string // chain string for detections
	err  error
	look *MIME
}

func c06Check(c c06Case) vfResult {
	var r vfResult
	vfJournal("C06", "progs", c)
	vfTreeSnapshot()
	defer func() {
		vfTreeRestore()
		SetLimit(defaultLimit)
		atomic.StoreUint32(&c06Enabled, 0xffffffff)
	}()
	inputs := make([][]byte, len(c.Inputs))
	for i := range c.Inputs {
		inputs[i] = []byte(c.Inputs[i])
	}
	fpath := filepath.Join(vfScratchDir(), "c06.bin")
	limits := map[uint32]bool{defaultLimit: true}
	writers, readers, lookups, spare := 0, 0, 0, false
	for _, p := range c.Progs {
		for _, o := range p {
			switch o.Op {
			case "setlimit":
				limits[o.Limit] = true
				writers++
			case "extend":
				writers++
				if c.Exts[o.Ext].SpareCap > 0 && len(c.Exts[o.Ext].Aliases) >= 0 {
					spare = true
				}
			case "lookup":
				lookups++
				readers++
			default:
				readers++
			}
		}
	}
	runs := c.Runs
	if runs < 1 {
		runs = 1
	}
	var allObs [][]c06Obs
	for run := 0; run < runs; run++ {
		vfTreeRestore()
		SetLimit(defaultLimit)
		// caller-owned alias slices with spare capacity
		backing := make([][]string, len(c.Exts))
		for i, e := range c.Exts {
			b := make([]string, len(e.Aliases), len(e.Aliases)+e.SpareCap)
			copy(b, e.Aliases)
			backing[i] = b
		}
		obs := make([][]c06Obs, len(c.Progs))
		var wg sync.WaitGroup
		start := make(chan struct{})
		for g := range c.Progs {
			wg.Add(1)
			go func(g int) {
				defer wg.Done()
				<-start
				for _, o := range c.Progs[g] {
					ob := c06Obs{op: o}
					switch o.Op {
					case "detect":
						m := Detect(inputs[o.In%len(inputs)])
						ob.res = vfChainStr(m)
						_ = m.Is(m.String())
					case "reader":
						m, err := DetectReader(bytes.NewReader(inputs[o.In%len(inputs)]))
						ob.res, ob.err = vfChainStr(m), err
					case "file":
						m, err := DetectFile(fpath)
						ob.res, ob.err = vfChainStr(m), err
					case "lookup":
						ob.look = Lookup(o.Name)
						if ob.look != nil {
							_, _ = ob.look.String(), ob.look.Extension()
							if p := ob.look.Parent(); p != nil {
								_ = p.String()
							}
						}
					case "setlimit":
						SetLimit(o.Limit)
					case "extend":
						e := c.Exts[o.Ext]
						al := backing[o.Ext]
						if e.Parent == "" {
							Extend(c06Pred(o.Ext), e.Mime, e.Ext, al...)
						} else if p := Lookup(e.Parent); p != nil {
							p.Extend(c06Pred(o.Ext), e.Mime, e.Ext, al...)
						}
						// the caller keeps using its own slice: read it, including the spare capacity
						full := al[:cap(al)]
						for i := range full {
							_ = full[i]
						}
					}
					obs[g] = append(obs[g], ob)
				}
			}(g)
		}
		if run == 0 {
			if err := os.WriteFile(fpath, inputs[0], 0o644); err != nil {
				panic(err)
			}
		}
		close(start)
		wg.Wait()
		// (iii) lookups: nil or completely built
		for g := range obs {
			for _, ob := range obs[g] {
				if ob.op.Op != "lookup" || ob.look == nil {
					continue
				}
				for i, e := range c.Exts {
					names := append([]string{e.Mime}, e.Aliases...)
					for _, n := range names {
						if n != ob.op.Name {
							continue
						}
						l := ob.look
						if l.String() != e.Mime || l.Extension() != e.Ext || l.Parent() == nil {
							r.Err = fmt.Errorf("Lookup(%q) observed a half-built node: %s %q parent=%v (extension %d)", n, l.String(), l.Extension(), l.Parent(), i)
							return r
						}
						wantParent := "application/octet-stream"
						if e.Parent != "" {
							if pp := Lookup(e.Parent); pp != nil {
								wantParent = pp.String()
							}
						}
						if l.Parent().String() != wantParent {
							r.Err = fmt.Errorf("Lookup(%q).Parent() = %s, want %s", n, l.Parent().String(), wantParent)
							return r
						}
					}
				}
			}
		}
		allObs = append(allObs, obs...)
		// (ii) admissible results, computed sequentially on the final tree of this run by gating
		// the extension predicates
		admissible := map[int]map[string]bool{}
		adm := func(in int) map[string]bool {
			if a, ok := admissible[in]; ok {
				return a
			}
			a := map[string]bool{}
			for L := range limits {
				SetLimit(L)
				for mask := uint32(0); mask < 1<<uint(len(c.Exts)); mask++ {
					atomic.StoreUint32(&c06Enabled, mask)
					a[vfChainStr(Detect(inputs[in]))] = true
				}
			}
			atomic.StoreUint32(&c06Enabled, 0xffffffff)
			admissible[in] = a
			return a
		}
		for g := range obs {
			for _, ob := range obs[g] {
				switch ob.op.Op {
				case "detect", "reader", "file":
					in := ob.op.In % len(inputs)
					if ob.op.Op == "file" {
						in = 0
					}
					if ob.err != nil {
						r.Err = fmt.Errorf("goroutine %d: %s returned error %v", g, ob.op.Op, ob.err)
						return r
					}
					if !adm(in)[ob.res] {
						var list []string
						for k := range adm(in) {
							list = append(list, k)
						}
						r.Err = fmt.Errorf("goroutine %d: %s(input %d = %s) returned %q, which no sequential execution returns (admissible: %q)", g, ob.op.Op, in, vfQ(inputs[in]), ob.res, list)
						return r
					}
				}
			}
		}
	}
	r.N = int64(runs)
	r.Nontrivial = writers > 0 && readers > 0
	if spare && lookups >= 2 {
		r.Labels = append(r.Labels, "alias-spare-capacity+concurrent-lookups")
	}
	if writers > 0 && readers > 0 {
		r.Labels = append(r.Labels, "writer-overlaps-reader")
	}
	r.Labels = append(r.Labels, fmt.Sprintf("goroutines-%d", len(c.Progs)))
	cb, _ := ejson.Marshal(c)
	r.Hash = vfHash(cb)
	return r
}

func c06Gen(t *rapid.T) c06Case {
	var c c06Case
	next := rapid.IntRange(0, 4).Draw(t, "next")
	for k := 0; k < next; k++ {
		e := c06ExtSpec{Mime: fmt.Sprintf("application/x-verif-%d", k), Ext: fmt.Sprintf(".vf%d", k), SpareCap: rapid.SampledFrom([]int{0, 1, 1, 4}).Draw(t, "spare")}
		parents := []string{"", "", "text/plain", "application/zip", "application/json", "application/x-zip"}
		for j := 0; j < k; j++ {
			parents = append(parents, fmt.Sprintf("application/x-verif-%d", j))
		}
		e.Parent = rapid.SampledFrom(parents).Draw(t, "parent")
		for i, n := 0, rapid.IntRange(0, 2).Draw(t, "nal"); i < n; i++ {
			e.Aliases = append(e.Aliases, fmt.Sprintf("application/x-verif-alias-%d-%d", k, i))
		}
		if e.Aliases == nil {
			e.Aliases = []string{}
		}
		c.Exts = append(c.Exts, e)
	}
	nin := rapid.IntRange(2, 6).Draw(t, "nin")
	for i := 0; i < nin; i++ {
		var x []byte
		switch rapid.IntRange(0, 4).Draw(t, "ik") {
		case 0:
			x = vfGenSeed(t)
		case 1:
			x = []byte(rapid.SampledFrom(c04Special).Draw(t, "sp"))
		case 2:
			x = c03Zip(t)
		default:
			x = []byte(vfGenTextish(t))
		}
		if next > 0 && rapid.Bool().Draw(t, "magic") {
			x = append([]byte(fmt.Sprintf("VF%d:", rapid.IntRange(0, next-1).Draw(t, "mk"))), x...)
		}
		if len(x) > 2000 {
			x = x[:2000]
		}
		c.Inputs = append(c.Inputs, x)
	}
	names := []string{"text/plain", "application/zip", "application/x-zip", "application/json", "text/html", "application/x-parquet", "application/vnd.apache.parquet", "image/png", "does/not-exist", "application/x-tar", "video/mp4"}
	for _, e := range c.Exts {
		names = append(names, e.Mime)
		names = append(names, e.Aliases...)
	}
	ng := rapid.IntRange(2, 8).Draw(t, "ng")
	extended := map[int]bool{}
	for g := 0; g < ng; g++ {
		var prog []c06Op
		for i, n := 0, rapid.IntRange(1, 8).Draw(t, "nops"); i < n; i++ {
			switch rapid.IntRange(0, 9).Draw(t, "ok") {
			case 0, 1, 2:
				prog = append(prog, c06Op{Op: "detect", In: rapid.IntRange(0, nin-1).Draw(t, "in")})
			case 3:
				prog = append(prog, c06Op{Op: "reader", In: rapid.IntRange(0, nin-1).Draw(t, "in")})
			case 4:
				prog = append(prog, c06Op{Op: "file"})
			case 5, 6:
				prog = append(prog, c06Op{Op: "lookup", Name: rapid.SampledFrom(names).Draw(t, "name")})
			case 7:
				prog = append(prog, c06Op{Op: "setlimit", Limit: rapid.SampledFrom([]uint32{0, 1, 5, 64, 3072, 1 << 20}).Draw(t, "lim")})
			default:
				// each extension is registered once, by one goroutine
				for k := range c.Exts {
					if !extended[k] {
						extended[k] = true
						prog = append(prog, c06Op{Op: "extend", Ext: k})
						break
					}
				}
			}
		}
		if len(prog) == 0 {
			prog = append(prog, c06Op{Op: "detect"})
		}
		c.Progs = append(c.Progs, prog)
	}
	c.Runs = rapid.IntRange(1, 4).Draw(t, "runs")
	return c
}

func TestVerif_C06(t *testing.T) {
	vfTreeSnapshot()
	vfRun(t, vfSub[c06Case]{Prop: "C06", Name: "progs", Checks: vfN(2400, 320000), Gen: c06Gen, Check: c06Check,
		Sample: func(c c06Case) any {
			var progs [][]string
			for _, p := range c.Progs {
				var ops []string
				for _, o := range p {
					switch o.Op {
					case "lookup":
						ops = append(ops, "lookup("+o.Name+")")
					case "setlimit":
						ops = append(ops, fmt.Sprintf("setlimit(%d)", o.Limit))
					case "extend":
						ops = append(ops, fmt.Sprintf("extend(#%d)", o.Ext))
					default:
						ops = append(ops, fmt.Sprintf("%s(in%d)", o.Op, o.In))
					}
				}
				progs = append(progs, ops)
			}
			return map[string]any{"extensions": c.Exts, "programs": progs, "runs": c.Runs, "inputs": len(c.Inputs)}
		}})
}
