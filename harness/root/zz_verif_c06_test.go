//go:build verif

package mimetype

import (
	"bytes"
	ejson "encoding/json"
	"fmt"
	"io"
	"os"
	"runtime"
	"path/filepath"
	"strings"
	"sync"
	"sync/atomic"
	"testing"
	"time"

	"pgregory.net/rapid"
)

// C06 — safe for concurrent use. Built with -race.
//
// A case is a concurrent program: 2-8 goroutines, each a list of operations over the public
// API, started behind a barrier and run several times (tree restored in between).
// Oracles: (i) the race detector stays silent (the shard runs with GORACE=halt_on_error; the
// program is journaled before it runs, so a report becomes a VIOLATION with the program as
// replay); (ii) every detection result is one that a sequential execution returns for that
// input under some limit that was in force during the program and some subset of the
// program's extensions; (iii) every Lookup result is nil or a completely built node.

type c06Op struct {
	Op    string `json:"op"` // detect | reader | file | lookup | setlimit | extend
	In    int    `json:"in,omitempty"`
	Name  string `json:"name,omitempty"`
	Limit uint32 `json:"limit,omitempty"`
	Ext   int    `json:"ext,omitempty"` // extend: index into Exts
}

type c06ExtSpec struct {
	Parent   string   `json:"parent"`
	Mime     string   `json:"mime"`
	Ext      string   `json:"ext"`
	Aliases  []string `json:"aliases"`
	SpareCap int      `json:"spare_cap"` // extra capacity of the caller-owned alias slice
}

type c06Case struct {
	Inputs []vfB        `json:"inputs"`
	Exts   []c06ExtSpec `json:"exts"`
	Progs  [][]c06Op    `json:"programs"`
	Runs   int          `json:"runs"`
}

var c06Enabled uint32 = 0xffffffff

// c06Tagged: an input that starts with "VF<digits>:" is accepted by extension k iff the digit k
// is among the digits, so that one input can satisfy several extensions at once.
func c06Tagged(raw []byte, k int) bool {
	if len(raw) < 3 || raw[0] != 'V' || raw[1] != 'F' {
		return false
	}
	found := false
	for _, b := range raw[2:] {
		switch {
		case b == ':':
			return found
		case b < '0' || b > '9':
			return false
		case int(b-'0') == k:
			found = true
		}
	}
	return false // tag not terminated inside the header
}

func c06Pred(k int) func([]byte, uint32) bool {
	bit := uint32(1) << uint(k)
	return func(raw []byte, _ uint32) bool {
		return atomic.LoadUint32(&c06Enabled)&bit != 0 && c06Tagged(raw, k)
	}
}

type c06Obs struct {
	op   c06Op
	res  string // chain string for detections
	err  error
	look *MIME
}

func c06Check(c c06Case) vfResult {
	var r vfResult
	vfJournal("C06", "progs", c)
	vfTreeSnapshot()
	defer func() {
		vfTreeRestore()
		SetLimit(defaultLimit)
		atomic.StoreUint32(&c06Enabled, 0xffffffff)
	}()
	inputs := make([][]byte, len(c.Inputs))
	for i := range c.Inputs {
		inputs[i] = []byte(c.Inputs[i])
	}
	fpath := filepath.Join(vfScratchDir(), "c06.bin")
	limits := map[uint32]bool{defaultLimit: true}
	writers, readers, lookups, spare := 0, 0, 0, false
	for _, p := range c.Progs {
		for _, o := range p {
			switch o.Op {
			case "setlimit":
				limits[o.Limit] = true
				writers++
			case "extend":
				writers++
				if c.Exts[o.Ext].SpareCap > 0 && len(c.Exts[o.Ext].Aliases) >= 0 {
					spare = true
				}
			case "lookup":
				lookups++
				readers++
			case "inspect":
				readers++
			default:
				readers++
			}
		}
	}
	runs := c.Runs
	if runs < 1 {
		runs = 1
	}
	var allObs [][]c06Obs
	for run := 0; run < runs; run++ {
		vfTreeRestore()
		SetLimit(defaultLimit)
		// caller-owned alias slices with spare capacity
		// caller-owned alias slices: windows of ONE array, so that the spare capacity of one
		// extension's slice is the beginning of the next extension's aliases
		backing := make([][]string, len(c.Exts))
		total := 0
		for _, e := range c.Exts {
			total += len(e.Aliases)
		}
		all := make([]string, total+8)
		off := 0
		for i, e := range c.Exts {
			end := off + len(e.Aliases)
			capEnd := min(end+e.SpareCap, len(all))
			b := all[off:end:capEnd]
			copy(b, e.Aliases)
			backing[i] = b
			off = end
		}
		obs := make([][]c06Obs, len(c.Progs))
		shared := make([]atomic.Pointer[MIME], len(c.Progs)) // latest result of each goroutine, visible to all
		applied := make([]int32, len(c.Exts))                 // 1 = this run really called Extend for extension k
		var inspectErr atomic.Pointer[string]
		var wg sync.WaitGroup
		start := make(chan struct{})
		for g := range c.Progs {
			wg.Add(1)
			go func(g int) {
				defer wg.Done()
				<-start
				for _, o := range c.Progs[g] {
					ob := c06Obs{op: o}
					switch o.Op {
					case "detect":
						m := Detect(inputs[o.In%len(inputs)])
						// publish first: other goroutines may call the accessors at the same time as the owner
						shared[g].Store(m)
						ob.res = vfChainStr(m)
						_ = m.Is(m.String())
					case "inspect":
						// accessor methods on values returned to OTHER goroutines
						for i := range shared {
							if m := shared[i].Load(); m != nil {
								s1, e1 := m.String(), m.Extension()
								s2 := m.String()
								ok := m.Is(s1)
								for p := m.Parent(); p != nil; p = p.Parent() {
									_ = p.String()
								}
								if s1 == "" || s1 != s2 || !ok {
									msg := fmt.Sprintf("shared result observed as String()=%q then %q, Extension()=%q, Is(String())=%v", s1, s2, e1, ok)
									inspectErr.Store(&msg)
								}
							}
						}
					case "reader":
						m, err := DetectReader(bytes.NewReader(inputs[o.In%len(inputs)]))
						ob.res, ob.err = vfChainStr(m), err
					case "file":
						m, err := DetectFile(fpath)
						ob.res, ob.err = vfChainStr(m), err
					case "lookup":
						ob.look = Lookup(o.Name)
						if ob.look != nil {
							_, _ = ob.look.String(), ob.look.Extension()
							if p := ob.look.Parent(); p != nil {
								_ = p.String()
							}
						}
					case "setlimit":
						SetLimit(o.Limit)
					case "extend":
						e := c.Exts[o.Ext]
						al := backing[o.Ext]
						if e.Parent == "" {
							vfExtendRoot(c06Pred(o.Ext), e.Mime, e.Ext, al...)
							atomic.StoreInt32(&applied[o.Ext], 1)
						} else if p := Lookup(e.Parent); p != nil {
							p.Extend(c06Pred(o.Ext), e.Mime, e.Ext, al...)
							atomic.StoreInt32(&applied[o.Ext], 1)
						}
						// the caller keeps using its own slice: read it, including the spare capacity
						full := al[:cap(al)]
						for i := range full {
							_ = full[i]
						}
					}
					obs[g] = append(obs[g], ob)
				}
			}(g)
		}
		if run == 0 {
			if err := os.WriteFile(fpath, inputs[0], 0o644); err != nil {
				panic(err)
			}
		}
		close(start)
		wg.Wait()
		if msg := inspectErr.Load(); msg != nil {
			r.Err = fmt.Errorf("%s", *msg)
			return r
		}
		// every Extend that returned must be in force afterwards (no lost update between writers)
		for k, e := range c.Exts {
			if atomic.LoadInt32(&applied[k]) == 0 {
				continue
			}
			for _, n := range append([]string{e.Mime}, e.Aliases...) {
				l := Lookup(n)
				if l == nil || l.String() != e.Mime || l.Extension() != e.Ext {
					r.Err = fmt.Errorf("extension %d (%s under %q) was registered by a completed Extend call but Lookup(%q) = %v after all goroutines finished", k, e.Mime, e.Parent, n, l)
					return r
				}
			}
		}
		// (iii) lookups: nil or completely built
		for g := range obs {
			for _, ob := range obs[g] {
				if ob.op.Op != "lookup" || ob.look == nil {
					continue
				}
				for i, e := range c.Exts {
					names := append([]string{e.Mime}, e.Aliases...)
					for _, n := range names {
						if n != ob.op.Name {
							continue
						}
						l := ob.look
						if l.String() != e.Mime || l.Extension() != e.Ext || l.Parent() == nil {
							r.Err = fmt.Errorf("Lookup(%q) observed a half-built node: %s %q parent=%v (extension %d)", n, l.String(), l.Extension(), l.Parent(), i)
							return r
						}
						wantParent := "application/octet-stream"
						if e.Parent != "" {
							if pp := Lookup(e.Parent); pp != nil {
								wantParent = pp.String()
							}
						}
						if l.Parent().String() != wantParent {
							r.Err = fmt.Errorf("Lookup(%q).Parent() = %s, want %s", n, l.Parent().String(), wantParent)
							return r
						}
					}
				}
			}
		}
		allObs = append(allObs, obs...)
		// (ii) admissible results, computed sequentially on the final tree of this run by gating
		// the extension predicates
		admissible := map[int]map[string]bool{}
		adm := func(in int) map[string]bool {
			if a, ok := admissible[in]; ok {
				return a
			}
			a := map[string]bool{}
			for L := range limits {
				SetLimit(L)
				for mask := uint32(0); mask < 1<<uint(len(c.Exts)); mask++ {
					if !c06MaskConsistent(c, mask) {
						continue
					}
					atomic.StoreUint32(&c06Enabled, mask)
					a[vfChainStr(Detect(inputs[in]))] = true
				}
			}
			atomic.StoreUint32(&c06Enabled, 0xffffffff)
			admissible[in] = a
			return a
		}
		for g := range obs {
			for _, ob := range obs[g] {
				switch ob.op.Op {
				case "detect", "reader", "file":
					in := ob.op.In % len(inputs)
					if ob.op.Op == "file" {
						in = 0
					}
					if ob.err != nil {
						r.Err = fmt.Errorf("goroutine %d: %s returned error %v", g, ob.op.Op, ob.err)
						return r
					}
					if !adm(in)[ob.res] {
						var list []string
						for k := range adm(in) {
							list = append(list, k)
						}
						r.Err = fmt.Errorf("goroutine %d: %s(input %d = %s) returned %q, which no sequential execution returns (admissible: %q)", g, ob.op.Op, in, vfQ(inputs[in]), ob.res, list)
						return r
					}
				}
			}
		}
	}
	r.N = int64(runs)
	r.Nontrivial = writers > 0 && readers > 0
	if spare && lookups >= 2 {
		r.Labels = append(r.Labels, "alias-spare-capacity+concurrent-lookups")
	}
	if writers > 0 && readers > 0 {
		r.Labels = append(r.Labels, "writer-overlaps-reader")
	}
	if len(c.Progs) > 8 {
		r.Labels = append(r.Labels, "goroutines-64+")
	} else {
		r.Labels = append(r.Labels, fmt.Sprintf("goroutines-%d", len(c.Progs)))
	}
	cb, _ := ejson.Marshal(c)
	r.Hash = vfHash(cb)
	return r
}

// c06MaskConsistent: a goroutine registers its extensions in program order, so at every instant
// the registered ones form a prefix of that order.
func c06MaskConsistent(c c06Case, mask uint32) bool {
	for _, p := range c.Progs {
		gap := false
		for _, o := range p {
			if o.Op != "extend" {
				continue
			}
			on := mask&(1<<uint(o.Ext)) != 0
			if on && gap {
				return false
			}
			if !on {
				gap = true
			}
		}
	}
	return true
}

func c06Gen(t *rapid.T) c06Case {
	var c c06Case
	next := rapid.IntRange(0, 4).Draw(t, "next")
	for k := 0; k < next; k++ {
		e := c06ExtSpec{Mime: fmt.Sprintf("application/x-verif-%d", k), Ext: fmt.Sprintf(".vf%d", k), SpareCap: rapid.SampledFrom([]int{0, 1, 1, 4}).Draw(t, "spare")}
		parents := []string{"", "", "text/plain", "application/zip", "application/json", "application/x-zip"}
		for j := 0; j < k; j++ {
			parents = append(parents, fmt.Sprintf("application/x-verif-%d", j))
		}
		e.Parent = rapid.SampledFrom(parents).Draw(t, "parent")
		if rapid.IntRange(0, 3).Draw(t, "param") == 0 {
			e.Mime += "; version=1" // names are stored verbatim; a parameter is legal
		}
		for i, n := 0, rapid.IntRange(0, 2).Draw(t, "nal"); i < n; i++ {
			e.Aliases = append(e.Aliases, fmt.Sprintf("application/x-verif-alias-%d-%d", k, i))
		}
		if e.Aliases == nil {
			e.Aliases = []string{}
		}
		c.Exts = append(c.Exts, e)
	}
	nin := rapid.IntRange(2, 6).Draw(t, "nin")
	for i := 0; i < nin; i++ {
		var x []byte
		switch rapid.IntRange(0, 4).Draw(t, "ik") {
		case 0:
			x = vfGenSeed(t)
		case 1:
			x = []byte(rapid.SampledFrom(c04Special).Draw(t, "sp"))
		case 2:
			x = c03Zip(t)
		default:
			x = []byte(vfGenTextish(t))
		}
		if next > 0 && rapid.Bool().Draw(t, "magic") {
			tag := "VF"
			for k := 0; k < next; k++ {
				if rapid.Bool().Draw(t, "tagbit") {
					tag += fmt.Sprint(k)
				}
			}
			x = append([]byte(tag+":"), x...)
		}
		if len(x) > 2000 {
			x = x[:2000]
		}
		c.Inputs = append(c.Inputs, x)
	}
	names := []string{"text/plain", "application/zip", "application/x-zip", "application/json", "text/html", "application/x-parquet", "application/vnd.apache.parquet", "image/png", "does/not-exist", "application/x-tar", "video/mp4"}
	for _, e := range c.Exts {
		names = append(names, e.Mime)
		names = append(names, e.Aliases...)
	}
	ng := rapid.IntRange(2, 8).Draw(t, "ng")
	maxOps := 8
	if rapid.IntRange(0, 49).Draw(t, "crowd") == 0 {
		ng, maxOps = rapid.IntRange(64, 160).Draw(t, "crowdsize"), 3 // many goroutines, short programs
	}
	extended := map[int]bool{}
	for g := 0; g < ng; g++ {
		var prog []c06Op
		for i, n := 0, rapid.IntRange(1, maxOps).Draw(t, "nops"); i < n; i++ {
			switch rapid.IntRange(0, 9).Draw(t, "ok") {
			case 0, 1, 2:
				prog = append(prog, c06Op{Op: "detect", In: rapid.IntRange(0, nin-1).Draw(t, "in")})
			case 3:
				prog = append(prog, c06Op{Op: "reader", In: rapid.IntRange(0, nin-1).Draw(t, "in")})
			case 4:
				prog = append(prog, c06Op{Op: "file"})
			case 5, 6:
				prog = append(prog, c06Op{Op: "lookup", Name: rapid.SampledFrom(names).Draw(t, "name")})
			case 7:
				if rapid.IntRange(0, 2).Draw(t, "insp") > 0 {
					prog = append(prog, c06Op{Op: "inspect"})
				} else {
					prog = append(prog, c06Op{Op: "setlimit", Limit: rapid.SampledFrom([]uint32{0, 1, 5, 64, 3072, 1 << 20}).Draw(t, "lim")})
				}
			default:
				// each extension is registered once, by one goroutine
				for k := range c.Exts {
					if !extended[k] {
						extended[k] = true
						prog = append(prog, c06Op{Op: "extend", Ext: k})
						break
					}
				}
			}
		}
		if len(prog) == 0 {
			prog = append(prog, c06Op{Op: "detect"})
		}
		c.Progs = append(c.Progs, prog)
	}
	c.Runs = rapid.IntRange(1, 4).Draw(t, "runs")
	return c
}


// ---------------------------------------------------------------------------------
// gated: the harness owns the schedule. A hook extension (always rejecting) is registered under
// a generated parent; when the reader's walk reaches it, the hook releases a writer goroutine
// (Extend / SetLimit sequence) and waits for it - with a time-out, because under correct
// locking the writer cannot make progress until the walk is over. Alternatively the hook is
// the first Read call of a reader. The result must be what a sequential execution returns for
// some prefix of the writer's Extend sequence and some limit in force during the call.

type c06GWrite struct {
	Op     string `json:"op"` // extend | setlimit
	Parent string `json:"parent,omitempty"`
	Tag    int    `json:"tag,omitempty"`
	Limit  uint32 `json:"limit,omitempty"`
}

type c06Gated struct {
	Input      vfB         `json:"input"`
	HookParent string      `json:"hook_parent"` // "" = root
	HookInRead bool        `json:"hook_in_read"`
	InitLimit  uint32      `json:"init_limit"` // limit in force when the detection starts
	Writes     []c06GWrite `json:"writes"`
}

type c06GateReader struct {
	data []byte
	off  int
	gate func()
}

func (r *c06GateReader) Read(p []byte) (int, error) {
	if r.gate != nil {
		g := r.gate
		r.gate = nil
		g()
	}
	if r.off >= len(r.data) {
		return 0, io.EOF
	}
	n := copy(p, r.data[r.off:])
	r.off += n
	return n, nil
}

func c06GMime(k int) string { return fmt.Sprintf("application/x-verif-g%d", k) }

func c06GApply(w c06GWrite, k int) {
	pred := func(raw []byte, _ uint32) bool { return c06Tagged(raw, w.Tag) }
	if w.Parent == "" {
		vfExtendRoot(pred, c06GMime(k), fmt.Sprintf(".g%d", k))
	} else if p := Lookup(w.Parent); p != nil {
		p.Extend(pred, c06GMime(k), fmt.Sprintf(".g%d", k))
	}
}

func c06GatedCheck(c c06Gated) vfResult {
	var r vfResult
	vfJournal("C06", "gated", c)
	vfTreeSnapshot()
	defer func() {
		vfTreeRestore()
		SetLimit(defaultLimit)
	}()
	input := []byte(c.Input)
	var armed int32
	started := make(chan struct{})
	done := make(chan struct{})
	reached := false
	gate := func() {
		if atomic.CompareAndSwapInt32(&armed, 1, 0) {
			reached = true
			close(started)
			select {
			case <-done:
			case <-time.After(3 * time.Millisecond):
			}
		}
	}
	hook := func([]byte, uint32) bool { gate(); return false }
	regHook := func() {
		if c.HookInRead {
			return
		}
		if c.HookParent == "" {
			vfExtendRoot(hook, "application/x-verif-hook", ".hook")
		} else if p := Lookup(c.HookParent); p != nil {
			p.Extend(hook, "application/x-verif-hook", ".hook")
		}
	}
	vfTreeRestore()
	SetLimit(c.InitLimit)
	regHook()
	atomic.StoreInt32(&armed, 1)
	var wg sync.WaitGroup
	wg.Add(1)
	go func() {
		defer wg.Done()
		select {
		case <-started:
		case <-time.After(20 * time.Millisecond):
		}
		for k, w := range c.Writes {
			if w.Op == "setlimit" {
				SetLimit(w.Limit)
			} else {
				c06GApply(w, k)
			}
		}
		close(done)
	}()
	var got *MIME
	var err error
	if c.HookInRead {
		got, err = DetectReader(&c06GateReader{data: input, gate: gate})
	} else {
		got = Detect(input)
	}
	wg.Wait()
	atomic.StoreInt32(&armed, 0)
	if err != nil || got == nil {
		r.Err = fmt.Errorf("detection returned (%v, %v)", got, err)
		return r
	}
	res := vfChainStr(got)
	// admissible: every prefix of the Extend sequence x every limit in force during the call
	limits := []uint32{c.InitLimit}
	for _, w := range c.Writes {
		if w.Op == "setlimit" {
			limits = append(limits, w.Limit)
		}
	}
	adm := map[string]bool{}
	for p := 0; p <= len(c.Writes); p++ {
		if p > 0 && c.Writes[p-1].Op != "extend" {
			continue
		}
		vfTreeRestore()
		regHook()
		for k, w := range c.Writes[:p] {
			if w.Op == "extend" {
				c06GApply(w, k)
			}
		}
		for _, L := range limits {
			SetLimit(L)
			adm[vfChainStr(Detect(input))] = true
		}
	}
	SetLimit(defaultLimit)
	if !adm[res] {
		var list []string
		for k := range adm {
			list = append(list, k)
		}
		r.Err = fmt.Errorf("detection overlapped by the writer sequence %+v returned %q, which no sequential execution returns for any prefix of that sequence (admissible: %q); input %s, hook under %q (in Read: %v)", c.Writes, res, list, vfQ(input), c.HookParent, c.HookInRead)
		return r
	}
	r.Nontrivial = reached && len(adm) >= 2
	if reached {
		r.Labels = append(r.Labels, "hook-reached")
	} else {
		r.Labels = append(r.Labels, "hook-not-reached")
	}
	r.Labels = append(r.Labels, fmt.Sprintf("admissible-%d", min(len(adm), 4)))
	cb, _ := ejson.Marshal(c)
	r.Hash = vfHash(cb)
	return r
}

func c06GatedGen(t *rapid.T) c06Gated {
	var c c06Gated
	c.HookInRead = rapid.IntRange(0, 3).Draw(t, "inread") == 0
	c.HookParent = rapid.SampledFrom([]string{"", "", "text/plain", "text/plain", "application/json", "application/zip"}).Draw(t, "hookparent")
	n := rapid.IntRange(1, 4).Draw(t, "nw")
	tag := "VF"
	for k := 0; k < n; k++ {
		if rapid.IntRange(0, 4).Draw(t, "wk") == 0 || (c.HookInRead && rapid.Bool().Draw(t, "wk2")) {
			c.Writes = append(c.Writes, c06GWrite{Op: "setlimit", Limit: rapid.SampledFrom([]uint32{0, 1, 4, 16, 3072, 1 << 16}).Draw(t, "lim")})
			continue
		}
		parents := []string{"", "", "text/plain", "text/plain", "application/json", "application/zip"}
		for j := 0; j < k; j++ {
			if c.Writes[j].Op == "extend" {
				parents = append(parents, c06GMime(j))
			}
		}
		c.Writes = append(c.Writes, c06GWrite{Op: "extend", Parent: rapid.SampledFrom(parents).Draw(t, "parent"), Tag: k})
		if rapid.IntRange(0, 3).Draw(t, "tagged") > 0 {
			tag += fmt.Sprint(k)
		}
	}
	var body []byte
	switch rapid.IntRange(0, 3).Draw(t, "body") {
	case 0:
		body = []byte(rapid.SampledFrom(c04Special).Draw(t, "sp"))
	case 1:
		body = []byte(vfGenTextish(t))
	case 2:
		body = []byte("plain text body, long enough to go past tiny limits .........")
	default:
		body = vfGenSeed(t)
		if len(body) > 800 {
			body = body[:800]
		}
	}
	c.InitLimit = rapid.SampledFrom([]uint32{defaultLimit, defaultLimit, 0, 8, 40, 200}).Draw(t, "initlimit")
	if rapid.IntRange(0, 3).Draw(t, "long") == 0 {
		// longer than the small limits: truncated and whole mode give different answers
		body = []byte(rapid.SampledFrom([]string{
			`{"type":"Feature","properties":{"name":"` + strings.Repeat("x", 300) + `"}}`,
			"a,b,c\n" + strings.Repeat("1,2,3\n", 60) + "4,5",
			strings.Repeat("{\"k\":1}\n", 50) + "{\"k\":",
			"[" + strings.Repeat("1,", 200) + "1]",
		}).Draw(t, "longbody"))
	}
	if rapid.IntRange(0, 5).Draw(t, "notag") == 0 {
		c.Input = body
	} else {
		c.Input = append([]byte(tag+":"), body...)
	}
	return c
}

// ---------------------------------------------------------------------------------
// shared: one input slice, several goroutines

type c06Shared struct {
	X     vfB    `json:"x"`
	Limit uint32 `json:"limit"`
	G     int    `json:"goroutines"`
}

func c06SharedCheck(c c06Shared) vfResult {
	var r vfResult
	vfJournal("C06", "shared", c)
	x := append([]byte(nil), c.X...)
	orig := append([]byte(nil), x...)
	defer SetLimit(defaultLimit)
	SetLimit(c.Limit)
	want := vfChainStr(Detect(x))
	g := max(2, min(c.G, 64))
	errs := make([]error, g)
	start := make(chan struct{})
	var wg sync.WaitGroup
	for i := 0; i < g; i++ {
		wg.Add(1)
		go func(i int) {
			defer wg.Done()
			<-start
			rounds := 6
			if len(x) > 20000 {
				rounds = 2
			}
			for k := 0; k < rounds; k++ {
				if got := vfChainStr(Detect(x)); got != want {
					errs[i] = fmt.Errorf("%d goroutines detect one shared %d-byte slice under limit %d: one of them got %s, alone the answer is %s; head %s", g, len(x), c.Limit, got, want, vfQ(x[:min(len(x), 60)]))
					return
				}
			}
		}(i)
	}
	close(start)
	wg.Wait()
	for _, e := range errs {
		if e != nil {
			r.Err = e
			return r
		}
	}
	if !bytes.Equal(x, orig) {
		r.Err = fmt.Errorf("the shared input slice was modified by concurrent detections; head %s", vfQ(orig[:min(len(orig), 60)]))
		return r
	}
	r.Nontrivial = len(x) >= 16
	r.Hash = vfHash(x, vfHashU(uint64(c.Limit), uint64(g)))
	return r
}

// ---------------------------------------------------------------------------------
// firstuse: a freshly registered chain of formats is used for the FIRST time by many goroutines
// at the same instant; every returned value must show its complete hierarchy (nothing built
// lazily may be observed half-built).

type c06First struct {
	Depth  int    `json:"depth"`
	G      int    `json:"goroutines"`
	Parent string `json:"parent"`
	Input  vfB    `json:"input"`
}

func c06FirstCheck(c c06First) vfResult {
	var r vfResult
	vfJournal("C06", "firstuse", c)
	vfTreeSnapshot()
	defer vfTreeRestore()
	vfTreeRestore()
	pred := func(raw []byte, _ uint32) bool { return bytes.Contains(raw, []byte("VF0:")) }
	parent := c.Parent
	for i := 0; i < c.Depth; i++ {
		name := fmt.Sprintf("application/x-verif-first-%d", i)
		if parent == "" {
			vfExtendRoot(pred, name, fmt.Sprintf(".vff%d", i))
		} else if p := Lookup(parent); p != nil {
			p.Extend(pred, name, fmt.Sprintf(".vff%d", i))
		}
		parent = name
	}
	input := []byte(c.Input)
	g := max(2, min(c.G, 64))
	got := make([]string, g)
	start := make(chan struct{})
	var wg sync.WaitGroup
	for i := 0; i < g; i++ {
		wg.Add(1)
		go func(i int) {
			defer wg.Done()
			<-start
			m := Detect(input)
			got[i] = vfChainStr(m) // walks Parent() up to the root
		}(i)
	}
	close(start)
	wg.Wait()
	want := vfChainStr(Detect(input))
	for i, s := range got {
		if s != want {
			r.Err = fmt.Errorf("%d goroutines use a fresh chain of %d formats (under %q) at the same instant: goroutine %d saw the hierarchy %s, the complete one is %s", g, c.Depth, c.Parent, i, s, want)
			return r
		}
	}
	r.Nontrivial = c.Depth >= 2
	cb, _ := ejson.Marshal(c)
	r.Hash = vfHash(cb)
	return r
}

// ---------------------------------------------------------------------------------
// limitflip: SetLimit toggles between two values while workers detect one input whose answer
// under "cut for A, judged under B" differs from the answers under A and under B. Every
// result must be the answer for A or the answer for B; nothing may panic.

type c06Flip struct {
	Input   vfB    `json:"input"`
	A       uint32 `json:"limit_a"`
	B       uint32 `json:"limit_b"`
	Workers int    `json:"workers"`
	Spare   int    `json:"spare_capacity"` // capacity of the callers' slices beyond their length
	Entry   string `json:"entry"`
}

func c06FlipCheck(c c06Flip) vfResult {
	var r vfResult
	vfJournal("C06", "limitflip", c)
	defer SetLimit(defaultLimit)
	base := []byte(c.Input)
	SetLimit(c.A)
	wa := vfChainStr(Detect(base))
	SetLimit(c.B)
	wb := vfChainStr(Detect(base))
	var stop int32
	var wg sync.WaitGroup
	wg.Add(1)
	go func() {
		defer wg.Done()
		for i := 0; atomic.LoadInt32(&stop) == 0; i++ {
			if i%2 == 0 {
				SetLimit(c.A)
			} else {
				SetLimit(c.B)
			}
		}
	}()
	errs := make([]error, c.Workers)
	var ww sync.WaitGroup
	for w := 0; w < c.Workers; w++ {
		ww.Add(1)
		go func(w int) {
			defer ww.Done()
			defer func() {
				if p := recover(); p != nil {
					errs[w] = fmt.Errorf("panic while SetLimit toggles between %d and %d: %v", c.A, c.B, p)
				}
			}()
			x := make([]byte, len(base), len(base)+c.Spare)
			copy(x, base)
			for i := 0; i < 1500; i++ {
				var got string
				if c.Entry == "reader" {
					m, err := DetectReader(bytes.NewReader(x))
					if err != nil {
						errs[w] = fmt.Errorf("DetectReader: %v", err)
						return
					}
					got = vfChainStr(m)
				} else {
					got = vfChainStr(Detect(x))
				}
				if got != wa && got != wb {
					errs[w] = fmt.Errorf("while SetLimit toggles between %d and %d, %s on %s returned %s; under %d the answer is %s, under %d it is %s", c.A, c.B, c.Entry, vfQ(base[:min(len(base), 60)]), got, c.A, wa, c.B, wb)
					return
				}
			}
		}(w)
	}
	ww.Wait()
	atomic.StoreInt32(&stop, 1)
	wg.Wait()
	for _, e := range errs {
		if e != nil {
			r.Err = e
			return r
		}
	}
	r.Nontrivial = wa != wb || len(base) > int(c.A)
	cb, _ := ejson.Marshal(c)
	r.Hash = vfHash(cb)
	return r
}

// ---------------------------------------------------------------------------------
// unwind: a detection that is unwound (a registered detector panics and the caller recovers,
// or the goroutine exits from inside the detector) must leave the registry usable: the calls
// other goroutines make afterwards - Extend, Lookup, detections - complete.

type c06Unwind struct {
	Parent string `json:"parent"`
	Entry  string `json:"entry"`
	Goexit bool   `json:"goexit"`
	Limit  uint32 `json:"limit"`
}

func c06UnwindCheck(c c06Unwind) vfResult {
	var r vfResult
	vfJournal("C06", "unwind", c)
	vfTreeSnapshot()
	stop := vfWatchdog("C06", "unwind", c, 40*time.Second)
	defer func() {
		stop()
		vfTreeRestore()
		SetLimit(defaultLimit)
	}()
	vfTreeRestore()
	SetLimit(c.Limit)
	bad := func(raw []byte, _ uint32) bool {
		if bytes.Contains(raw, []byte("VFUNWIND")) {
			if c.Goexit {
				runtime.Goexit()
			}
			panic("verif: detector failure")
		}
		return false
	}
	if c.Parent == "" {
		vfExtendRoot(bad, "application/x-verif-unwind", ".vunw")
	} else if p := Lookup(c.Parent); p != nil {
		p.Extend(bad, "application/x-verif-unwind", ".vunw")
	}
	input := []byte("VFUNWIND plain text\n")
	if c.Parent == "application/zip" {
		input = []byte("PK\x03\x04VFUNWIND")
	}
	done := make(chan struct{})
	go func() { // the unwound detection, on a goroutine of its own
		defer close(done)
		defer func() { _ = recover() }()
		switch c.Entry {
		case "reader":
			_, _ = DetectReader(bytes.NewReader(input))
		case "file":
			_, _ = DetectFile(vfWriteFile("c06u", input, 0))
		default:
			_ = Detect(input)
		}
	}()
	<-done
	// everybody else carries on
	ok := func(raw []byte, _ uint32) bool { return bytes.HasPrefix(raw, []byte("VFOK")) }
	vfExtendRoot(ok, "application/x-verif-after-unwind", ".vaft")
	if l := Lookup("application/x-verif-after-unwind"); l == nil {
		r.Err = fmt.Errorf("a format registered after an unwound detection is not found by Lookup")
		return r
	}
	if m := Detect([]byte("VFOK and more")); m == nil || m.String() != "application/x-verif-after-unwind" {
		r.Err = fmt.Errorf("after an unwound detection, Extend + Detect give %s", vfChainStr(m))
		return r
	}
	r.Nontrivial = true
	cb, _ := ejson.Marshal(c)
	r.Hash = vfHash(cb)
	return r
}

// ---------------------------------------------------------------------------------
// pipe: the bytes of a reader are produced by a goroutine that first registers a format (and
// looks one up). DetectReader sits in Read meanwhile; it must not hold anything Extend needs.

type c06Pipe struct {
	Input   vfB    `json:"input"`
	Parent  string `json:"parent"`
	Limit   uint32 `json:"limit"`
	Chunk   int    `json:"chunk"`
	Lookups bool   `json:"lookups"`
}

func c06PipeCheck(c c06Pipe) vfResult {
	var r vfResult
	vfJournal("C06", "pipe", c)
	vfTreeSnapshot()
	stop := vfWatchdog("C06", "pipe", c, 40*time.Second)
	defer func() {
		stop()
		vfTreeRestore()
		SetLimit(defaultLimit)
	}()
	vfTreeRestore()
	SetLimit(c.Limit)
	input := []byte(c.Input)
	before := vfChainStr(Detect(input))
	pred := func(raw []byte, _ uint32) bool { return c06Tagged(raw, 0) }
	pr, pw := io.Pipe()
	go func() {
		// the producer: registers its format, then sends the data
		if c.Parent == "" {
			vfExtendRoot(pred, "application/x-verif-pipe", ".vpipe")
		} else if p := Lookup(c.Parent); p != nil {
			p.Extend(pred, "application/x-verif-pipe", ".vpipe")
		}
		if c.Lookups {
			_ = Lookup("application/x-verif-pipe")
		}
		chunk := c.Chunk
		if chunk <= 0 {
			chunk = len(input) + 1
		}
		for off := 0; off < len(input); off += chunk {
			pw.Write(input[off:min(len(input), off+chunk)])
		}
		pw.Close()
	}()
	got, err := DetectReader(pr)
	pr.Close()
	if err != nil || got == nil {
		r.Err = fmt.Errorf("DetectReader over a pipe returned (%v, %v)", got, err)
		return r
	}
	after := vfChainStr(Detect(input))
	if res := vfChainStr(got); res != before && res != after {
		r.Err = fmt.Errorf("DetectReader over a pipe whose producer registers a format first returned %s; before the registration the answer is %s, after it %s", res, before, after)
		return r
	}
	r.Nontrivial = true
	if before != after {
		r.Labels = append(r.Labels, "registration-changes-answer")
	}
	cb, _ := ejson.Marshal(c)
	r.Hash = vfHash(cb)
	return r
}

func TestVerif_C06(t *testing.T) {
	defer vfStats.dump()
	vfTreeSnapshot()
	if vfOnlySub("gated") {
		vfRun(t, vfSub[c06Gated]{Prop: "C06", Name: "gated", Checks: vfN(4000, 400000), Gen: c06GatedGen, Check: c06GatedCheck})
	}
	if t.Failed() {
		return
	}
	if vfOnlySub("shared") {
		// several goroutines detect ONE slice at the same time (a caller may share its input): any
		// write to it, even one undone before returning, is a race and may change a neighbour's answer
		if !vfReplayMode() {
			sh, nsh := vfShard(), vfNShards()
			for i, sd := range vfSeeds() {
				if i%nsh != sh {
					continue
				}
				x := sd.Data
				if len(x) > 4096 {
					x = x[:4096]
				}
				c := c06Shared{X: x, Limit: []uint32{defaultLimit, 0, 600}[i%3], G: 4}
				r := c06SharedCheck(c)
				r.Labels = append(r.Labels, "shared-seed")
				vfStats.record(r, func() any { return map[string]any{"sub": "shared", "seed": sd.Name} })
				if r.Err != nil {
					vfEnumFail(t, "C06", "shared", c, r.Err)
					return
				}
			}
		}
		if !vfReplayMode() && vfShard() < 3 && !t.Failed() {
			// more goroutines than processors, each inside a deep (1100-4000 levels) document
			d := []int{1100, 2000, 4000}[vfShard()]
			x := []byte(strings.Repeat("[", d) + "[" + strings.Repeat("{\"k\":[1,2,3],\"s\":\"text\"},", 6000) + "1]" + strings.Repeat("]", d))
			c := c06Shared{X: x, Limit: 0, G: 64}
			r := c06SharedCheck(c)
			r.Labels = append(r.Labels, "deep-crowd")
			vfStats.record(r, func() any { return map[string]any{"sub": "shared", "deep": d, "len": len(x), "goroutines": 64} })
			if r.Err != nil {
				vfEnumFail(t, "C06", "shared", c, r.Err)
				return
			}
		}
		vfRun(t, vfSub[c06Shared]{Prop: "C06", Name: "shared", Checks: vfN(1200, 160000), Check: c06SharedCheck,
			Sample: func(c c06Shared) any {
				return map[string]any{"sub": "shared", "len": len(c.X), "head": vfQ(c.X[:min(len(c.X), 40)]), "limit": c.Limit, "goroutines": c.G}
			},
			Gen: func(t *rapid.T) c06Shared {
				var x []byte
				switch rapid.IntRange(0, 7).Draw(t, "k") {
				case 0:
					x, _ = c18GenArchive(t)
				case 1:
					x = c03Zip(t)
				case 2:
					x = c03Ole(t)
				case 3:
					x = []byte(c12GenHTML(t).Doc)
				case 4:
					x = []byte(c10Gen(t).Doc)
				case 5:
					x = []byte(c13GenFwd(t).Doc)
				case 6:
					x = vfTarWindow(t, vfGenAnyInput(t))
				default:
					x = vfGenAnyInput(t)
				}
				if len(x) > 6000 {
					x = x[:6000]
				}
				return c06Shared{X: x, Limit: rapid.SampledFrom([]uint32{defaultLimit, 0, 512, 100}).Draw(t, "limit"), G: rapid.IntRange(2, 6).Draw(t, "g")}
			}})
	}
	if t.Failed() {
		return
	}
	if vfOnlySub("firstuse") {
		vfRun(t, vfSub[c06First]{Prop: "C06", Name: "firstuse", Checks: vfN(400, 60000), Check: c06FirstCheck,
			Gen: func(t *rapid.T) c06First {
				return c06First{Depth: rapid.IntRange(1, 16).Draw(t, "depth"), G: rapid.SampledFrom([]int{2, 4, 8, 16, 48}).Draw(t, "g"),
					Parent: rapid.SampledFrom([]string{"", "text/plain", "application/zip", "application/json"}).Draw(t, "parent"),
					Input:  vfB(rapid.SampledFrom([]string{"VF0: plain text\n", "VF0:{\"a\":1}", "PK\x03\x04VF0:", "{\"VF0:\":1}"}).Draw(t, "input"))}
			}})
	}
	if t.Failed() {
		return
	}
	if vfOnlySub("limitflip") {
		vfRun(t, vfSub[c06Flip]{Prop: "C06", Name: "limitflip", Checks: vfN(32, 3200), Check: c06FlipCheck,
			Gen: func(t *rapid.T) c06Flip {
				docs := []string{
					"[" + strings.Repeat("1,", 60) + "1]",
					"{\"type\":\"Feature\",\"properties\":{\"name\":\"" + strings.Repeat("x", 200) + "\"}}",
					"a,b,c\n" + strings.Repeat("1,2,3\n", 40) + "4,5",
					strings.Repeat("{\"k\":1}\n", 30) + "{\"k\":",
					"plain text " + strings.Repeat("word ", 40) + "\x00\x01",
				}
				return c06Flip{Input: vfB(rapid.SampledFrom(docs).Draw(t, "doc")), A: rapid.SampledFrom([]uint32{16, 40, 64}).Draw(t, "a"),
					B: rapid.SampledFrom([]uint32{0, 4096, 1 << 16}).Draw(t, "b"), Workers: rapid.SampledFrom([]int{2, 4, 8}).Draw(t, "workers"),
					Spare: rapid.SampledFrom([]int{0, 0, 16, 5000}).Draw(t, "spare"), Entry: rapid.SampledFrom([]string{"detect", "detect", "reader"}).Draw(t, "entry")}
			}})
	}
	if t.Failed() {
		return
	}
	if vfOnlySub("unwind") {
		vfRun(t, vfSub[c06Unwind]{Prop: "C06", Name: "unwind", Checks: vfN(300, 30000), Check: c06UnwindCheck,
			Gen: func(t *rapid.T) c06Unwind {
				return c06Unwind{Parent: rapid.SampledFrom([]string{"", "text/plain", "application/zip"}).Draw(t, "parent"),
					Entry: rapid.SampledFrom([]string{"detect", "reader", "file"}).Draw(t, "entry"), Goexit: rapid.IntRange(0, 3).Draw(t, "goexit") == 0,
					Limit: rapid.SampledFrom([]uint32{defaultLimit, 0, 16}).Draw(t, "limit")}
			}})
	}
	if t.Failed() {
		return
	}
	if vfOnlySub("pipe") {
		vfRun(t, vfSub[c06Pipe]{Prop: "C06", Name: "pipe", Checks: vfN(600, 60000), Check: c06PipeCheck,
			Gen: func(t *rapid.T) c06Pipe {
				body := []byte(rapid.SampledFrom([]string{"plain text body\n", "{\"a\":1}", "PK\x03\x04rest", "<html><body>x</body></html>", "a,b\n1,2\n3,4\n"}).Draw(t, "body"))
				if rapid.Bool().Draw(t, "tagged") {
					body = append([]byte("VF0:"), body...)
				}
				return c06Pipe{Input: body, Parent: rapid.SampledFrom([]string{"", "text/plain", "application/zip", "application/json"}).Draw(t, "parent"),
					Limit: rapid.SampledFrom([]uint32{defaultLimit, 0, 8, 1 << 16}).Draw(t, "limit"), Chunk: rapid.SampledFrom([]int{0, 1, 5}).Draw(t, "chunk"),
					Lookups: rapid.Bool().Draw(t, "lookups")}
			}})
	}
	if t.Failed() {
		return
	}
	if !vfOnlySub("progs") {
		return
	}
	vfRun(t, vfSub[c06Case]{Prop: "C06", Name: "progs", Checks: vfN(2400, 320000), Gen: c06Gen, Check: c06Check,
		Sample: func(c c06Case) any {
			var progs [][]string
			for _, p := range c.Progs {
				var ops []string
				for _, o := range p {
					switch o.Op {
					case "lookup":
						ops = append(ops, "lookup("+o.Name+")")
					case "setlimit":
						ops = append(ops, fmt.Sprintf("setlimit(%d)", o.Limit))
					case "extend":
						ops = append(ops, fmt.Sprintf("extend(#%d)", o.Ext))
					case "inspect":
						ops = append(ops, "inspect-shared-results")
					default:
						ops = append(ops, fmt.Sprintf("%s(in%d)", o.Op, o.In))
					}
				}
				progs = append(progs, ops)
			}
			return map[string]any{"extensions": c.Exts, "programs": progs, "runs": c.Runs, "inputs": len(c.Inputs)}
		}})
}
