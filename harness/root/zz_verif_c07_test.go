//go:build verif

package mimetype

import (
	"fmt"
	"testing"

	"pgregory.net/rapid"
)

// C07 — text versus binary is decided by binary-data bytes.
//
// Oracle (from the WHATWG table, see vfIsBinByte / vfBOMs in the kit), with h = x[:limit]:
//   (->) text/plain anywhere in chain(Detect(x))  =>  bom(h) or no binary-data byte in h
//   (<-) bom(h) or no binary-data byte in h       =>  Detect(x).Parent() != nil

type c07Case struct {
	X     vfB    `json:"x"`
	Limit uint32 `json:"limit"`
	// Reader: also go through DetectReader, right after a reader detection under PrevLimit
	Reader    bool   `json:"reader,omitempty"`
	PrevLimit uint32 `json:"prev_limit,omitempty"`
}

func c07Check(c c07Case) vfResult {
	h := vfHeader(c.X, c.Limit)
	m := vfDetectAt(c.X, c.Limit)
	if m == nil {
		return vfFailf("Detect returned nil")
	}
	textLike := vfBOM(h) != "" || !vfHasBin(h)
	inText := vfInFamily(m, "text/plain")
	var r vfResult
	if inText && !textLike {
		r.Err = fmt.Errorf("text/plain in hierarchy (%s) but header %s has a binary-data byte and no BOM", vfChainStr(m), vfQ(h))
	}
	if textLike && m.Parent() == nil {
		r.Err = fmt.Errorf("header %s has a BOM or no binary-data byte, but result is the bare root (%s)", vfQ(h), vfChainStr(m))
	}
	if r.Err == nil && c.Reader && c.Limit <= 1<<20 && c.PrevLimit <= 1<<20 {
		mr, err := vfReaderAfter(c.PrevLimit, c.Limit, c.X)
		r.Labels = append(r.Labels, "reader-after-other-limit")
		switch {
		case err != nil || mr == nil:
			r.Err = fmt.Errorf("DetectReader returned (%v, %v)", mr, err)
		case vfInFamily(mr, "text/plain") && !textLike:
			r.Err = fmt.Errorf("DetectReader (after a detection under limit %d): text/plain in hierarchy (%s) but header %s has a binary-data byte and no BOM", c.PrevLimit, vfChainStr(mr), vfQ(h))
		case textLike && mr.Parent() == nil:
			r.Err = fmt.Errorf("DetectReader (after a detection under limit %d): header %s has a BOM or no binary-data byte, but result is the bare root", c.PrevLimit, vfQ(h))
		}
	}
	if r.Err == nil && c.Reader {
		if err := vfRoutes(c.X, c.Limit, m); err != nil {
			r.Err = fmt.Errorf("%v; x=%s", err, vfQ(c.X))
		}
	}
	// non-trivial: the header carries a control/high byte or a BOM, or a binary byte sits
	// directly beyond the limit
	for _, b := range h {
		if (b < 0x20 && b != '\t' && b != '\n' && b != '\r') || b >= 0x7f {
			r.Nontrivial = true
			break
		}
	}
	if len(c.X) > len(h) && vfIsBinByte(c.X[len(h)]) {
		r.Nontrivial = true
		r.Labels = append(r.Labels, "bin-byte-just-beyond-limit")
	}
	if inText {
		r.Labels = append(r.Labels, "verdict-text")
	} else {
		r.Labels = append(r.Labels, "verdict-nontext")
	}
	if vfBOM(h) != "" {
		r.Labels = append(r.Labels, "bom")
		if vfHasBin(h) {
			r.Labels = append(r.Labels, "bom+bin")
		}
	}
	r.Hash = vfHash(c.X, vfHashU(uint64(c.Limit)))
	return r
}

var c07Templates = []string{
	"",
	"a",
	"Hello, plain world.\n",
	"The quick brown fox\r\njumps over\tthe lazy dog",
	`{"a":1,"b":[true,null]}`,
	`{"type":"Feature","k":"v"}`,
	"{\"a\":1}\n{\"b\":2}\n",
	"a,b,c\n1,2,3\n4,5,6\n",
	"a\tb\n1\t2\n3\t4\n",
	"<!DOCTYPE html><html><head><meta charset=\"utf-8\"></head>",
	"<html ><body>x</body></html>",
	"<?xml version=\"1.0\" encoding=\"UTF-8\"?><a/>",
	"<?xml version=\"1.0\"?><rss version=\"2.0\">",
	"<svg xmlns=\"http://www.w3.org/2000/svg\">",
	"#!/usr/bin/env python\nprint(1)\n",
	"#!/usr/bin/perl\n",
	"#! /usr/bin/lua\n",
	"<?php echo 1;",
	"BEGIN:VCARD\nVERSION:3.0\nEND:VCARD\n",
	"BEGIN:VCALENDAR\r\nEND:VCALENDAR\r\n",
	"1\n00:02:16,612 --> 00:02:19,376\nSubtitle\n",
	"WEBVTT\n\n00:01.000 --> 00:04.000\n",
	"{\\rtf1\\ansi}",
	"WARC/1.0\r\nWARC-Type: warcinfo",
	"\xef\xbb\xbfBOM text",
	"\xff\xfeU\x00T\x00F\x00",
	"\xfe\xff\x00U\x00T",
	"\xff\xfe\x00\x00U\x00\x00\x00",
	"\x00\x00\xfe\xff\x00\x00\x00U",
	"caf\xc3\xa9 cr\xe8me \x85",
	"/* XPM */",
	"#?RADIANCE\nx",
	"d8:announce",
	"%PDF-1.4",
	"BM text",
}

func TestVerif_C07(t *testing.T) {
	defer vfStats.dump()
	vfStats.Property = "C07"
	if vfOnlySub("static") {
		vfRunStatic(t, "C07", 0)
	}
	if t.Failed() {
		return
	}
	if vfOnlySub("procfs") && !vfReplayMode() && vfShard() == 0 {
		n, err := vfProcfs(func(path string, content []byte, viaFile *MIME, derr error) error {
			h := vfHeader(content, defaultLimit)
			textLike := vfBOM(h) != "" || !vfHasBin(h)
			if derr != nil || viaFile == nil {
				return fmt.Errorf("DetectFile(%s) = (%v, %v)", path, viaFile, derr)
			}
			if vfInFamily(viaFile, "text/plain") && !textLike {
				return fmt.Errorf("DetectFile(%s): text/plain in hierarchy (%s) but the first %d bytes of the file hold binary-data bytes: %s", path, vfChainStr(viaFile), len(h), vfQ(h))
			}
			if textLike && viaFile.Parent() == nil {
				return fmt.Errorf("DetectFile(%s): the file's header has no binary-data byte but the result is the bare root", path)
			}
			return nil
		})
		var r vfResult
		r.Nontrivial, r.Labels, r.Hash, r.Err = n > 0, []string{"procfs"}, vfHash([]byte("procfs")), err
		vfStats.record(r, func() any { return map[string]any{"sub": "procfs", "files": n} })
		if err != nil {
			vfEnumFail(t, "C07", "gen", c07Case{X: vfB("procfs")}, err)
			return
		}
	}
	if vfOnlySub("huge") && !vfReplayMode() && vfShard() < 2 {
		n := []int{70000, 1200000}[vfShard()]
		for _, kind := range []string{"filler", "csv", "json-array", "html-giant-comment"} {
			base := vfBig(kind, n)
			for _, pos := range []int{len(base) - 1, len(base) / 2, 65536, 65537, 1 << 20} {
				if pos >= len(base) {
					continue
				}
				for _, v := range []byte{0x00, 0x1a, 0x0b} {
					x := append([]byte(nil), base...)
					x[pos] = v
					for _, lim := range []uint32{0, uint32(pos), uint32(pos + 1), uint32(len(x))} {
						c := c07Case{X: x, Limit: lim, Reader: lim != 0 && pos%2 == 0, PrevLimit: 16}
						r := c07Check(c)
						r.Labels = append(r.Labels, "huge")
						vfStats.record(r, func() any { return map[string]any{"sub": "huge", "kind": kind, "len": len(x), "binary_byte_at": pos, "limit": lim} })
						if r.Err != nil {
							vfEnumFail(t, "C07", "gen", c07Case{X: x[max(0, pos-40):min(len(x), pos+40)], Limit: 0}, fmt.Errorf("%s of %d bytes with byte %#x at offset %d, limit %d: %v", kind, len(x), v, pos, lim, r.Err))
							return
						}
					}
				}
			}
		}
	}
	if t.Failed() {
		return
	}
	if !vfDictSweep(t, "C07", "enum", vfDictLits, func(tok string) []c07Case {
		return []c07Case{{X: vfB(tok)}, {X: vfB(tok + " and then plain text\n")}, {X: vfB("text first, then " + tok + "\n")}, {X: vfB(tok + "\x00"), Limit: uint32(len(tok))},
			{X: vfB(tok + " caf\xe9 \x1b[0m"), Reader: true, PrevLimit: 1}}
	}, c07Check, "each literal alone, before text, after text, before a NUL beyond the limit, before Latin-1 text with ESC") {
		return
	}
	if vfOnlySub("enum") {
		vfRun(t, vfSub[c07Case]{Prop: "C07", Name: "enum", Check: c07Check})
		if !vfReplayMode() && !t.Failed() {
			c07Enumerate(t)
		}
	}
	if t.Failed() {
		return
	}
	if vfOnlySub("gen") {
		vfRun(t, vfSub[c07Case]{
			Prop: "C07", Name: "gen", Checks: vfN(60000, 40000000),
			Gen: func(t *rapid.T) c07Case {
				var x []byte
				switch rapid.IntRange(0, 6).Draw(t, "k") {
				case 0: // text with 0..3 injected arbitrary bytes
					x = []byte(vfGenTextish(t))
					for i, n := 0, rapid.IntRange(0, 3).Draw(t, "ninj"); i < n; i++ {
						p := rapid.IntRange(0, len(x)).Draw(t, "p")
						v := rapid.Byte().Draw(t, "v")
						x = append(x[:p], append([]byte{v}, x[p:]...)...)
					}
				case 1: // BOM + garbage
					x = append([]byte(nil), rapid.SampledFrom(vfBOMs).Draw(t, "bom").bom...)
					x = append(x, rapid.SliceOfN(rapid.Byte(), 0, 24).Draw(t, "garbage")...)
				case 2: // binary seed with its binary-data bytes replaced by text bytes
					x = vfGenSeed(t)
					if len(x) > 600 {
						x = x[:600]
					}
					for i := range x {
						if vfIsBinByte(x[i]) {
							x[i] = rapid.SampledFrom([]byte{' ', 'a', '\n', 0x0c, 0x1b, 0x7f, 0x80, 0xff}).Draw(t, "r")
						}
					}
				case 3: // bytes over the interesting classes
					x = rapid.SliceOfN(rapid.SampledFrom([]byte{'a', ' ', '\n', '\t', '\r', 0x0c, 0x1b, 0x7f, 0x80, 0xa0, 0xff, 0xfe, 0xef, 0xbb, 0xbf, 0x00, 0x08, 0x0b, 0x0e, 0x1a, 0x1c, 0x1f, '{', '<', '#', '!'}), 0, 12).Draw(t, "cls")
				case 4:
					x = vfGenAnyInput(t)
				case 6: // clean text of >= 520 bytes with an octal field (possibly NUL-terminated) at 148..155
					x = vfTarWindow(t, []byte(vfGenTextish(t)+"plain words and lines\n"))
					for i := range x {
						if vfIsBinByte(x[i]) && (i < 148 || i >= 156) {
							x[i] = ' '
						}
					}
				default: // long clean text, limit above the default, one byte planted around the limit
					lx, ll := vfGenLong(t)
					p := int(ll) + rapid.IntRange(-2, 40).Draw(t, "off")
					if p >= 0 && p < len(lx) {
						lx[p] = rapid.SampledFrom([]byte{0x00, 0x01, 0x0b, 0x1a, 0x1f, 0xe9, 0x85}).Draw(t, "planted")
					}
					return c07Case{X: lx, Limit: ll, Reader: true, PrevLimit: rapid.SampledFrom([]uint32{0, 16, 3072, 1 << 16}).Draw(t, "prev")}
				}
				c := c07Case{X: x, Limit: vfGenLimit(t, len(x))}
				if rapid.Bool().Draw(t, "reader") {
					c.Reader = true
					c.PrevLimit = rapid.SampledFrom([]uint32{0, 1, 8, 64, 3072, 8192, uint32(len(x) + 9)}).Draw(t, "prev")
				}
				return c
			},
			Check: c07Check,
		})
	}
}

// c07Enumerate: every byte value at every position of every template (replace and insert),
// with the limit placed so that the byte is the last one inside, the first one outside, or
// well inside the header. Distinct by construction up to identical (x, limit) pairs, which
// are de-duplicated through the hash set like generated cases.
func c07Enumerate(t *testing.T) {
	sh, nsh := vfShard(), vfNShards()
	idx := 0
	for ti, tpl := range c07Templates {
		tb := []byte(tpl)
		for p := 0; p <= len(tb); p++ {
			for op := 0; op < 2; op++ { // 0 = replace, 1 = insert
				if op == 0 && p == len(tb) {
					continue
				}
				idx++
				if idx%nsh != sh {
					continue
				}
				for v := 0; v < 256; v++ {
					var x []byte
					if op == 0 {
						x = append([]byte(nil), tb...)
						x[p] = byte(v)
					} else {
						x = append(append(append([]byte(nil), tb[:p]...), byte(v)), tb[p:]...)
					}
					for _, lim := range []uint32{0, uint32(p), uint32(p + 1), uint32(len(x)), uint32(len(x) + 1)} {
						c := c07Case{X: x, Limit: lim}
						if (idx+v)%4 == 0 {
							c.Reader, c.PrevLimit = true, uint32(len(x)+16)
							if v%2 == 0 {
								c.PrevLimit = 1
							}
						}
						r := c07Check(c)
						r.Labels = append(r.Labels, "enum")
						vfStats.record(r, func() any { return map[string]any{"sub": "enum", "template": ti, "case": c} })
						if r.Err != nil {
							vfEnumFail(t, "C07", "enum", c, r.Err)
							return
						}
					}
				}
			}
		}
	}
	// every two-byte combination at every alignment within a 16-byte window of plain text
	// (word-at-a-time scans treat neighbouring bytes together)
	pairs := 0
	base := []byte("the quick brown fox jumps over it\n")
	for v := sh; v < 65536; v += nsh {
		for p := 0; p <= 9; p++ {
			x := append([]byte(nil), base...)
			x[p], x[p+1] = byte(v>>8), byte(v)
			c := c07Case{X: x, Limit: 0}
			r := c07Check(c)
			pairs++
			r.Labels = append(r.Labels, "enum-pairs")
			vfStats.record(r, func() any { return map[string]any{"sub": "enum", "pair": fmt.Sprintf("%04x", v), "at": p} })
			if r.Err != nil {
				vfEnumFail(t, "C07", "enum", c, r.Err)
				return
			}
		}
	}
	vfStats.Subchecks["enum-pairs"] = fmt.Sprintf("all 65536 two-byte values at offsets 0..9 of a text line (this shard: %d cases)", pairs)
	vfStats.Subchecks["enum"] = fmt.Sprintf("templates=%d slots=%d (all 256 values x 5 limits each; this shard took every %d-th slot)", len(c07Templates), idx, nsh)
}
