//go:build verif

package mimetype

import (
	"bytes"
	ejson "encoding/json"
	"fmt"
	"strings"
	"testing"

	"github.com/gabriel-vasile/mimetype/internal/magic"
	"pgregory.net/rapid"
)

// C08 — well-formed JSON is recognised, whole or truncated.
//
// Generator: strictly valid RFC 8259 objects/arrays from a token grammar (encoding/json.Valid
// is asserted on every document as a generator sanity check, it is not the oracle).
// Check: for every limit L from (index of the opening bracket + 1) to len+2 and for L = 0,
//   * magic.JSON(doc[:min(L,len)], L) is true, and
//   * Detect(doc) under limit L is in the application/json family,
// unless a node that precedes text/plain at the root, or precedes json among the children of
// text/plain, accepts the same header (the "higher-priority signature" exception; counted).

type c08Case struct {
	Doc   vfB     `json:"doc"`
	Limit *uint32 `json:"limit,omitempty"` // nil: all limits
}

// c08HigherPriority reports whether a format that is tried before json accepts h.
func c08HigherPriority(h []byte, limit uint32) string {
	// an exception needs (a) a format documented to outrank JSON that accepts the header and
	// (b) one of the literals through which a JSON text can really satisfy such a signature
	planted := false
	for _, p := range jPlanted {
		if bytes.Contains(h, []byte(p)) {
			planted = true
		}
	}
	if !planted {
		return ""
	}
	return vfEarlierSibling([]*MIME{text, json}, h, limit)
}

func c08IsJSONFamily(m *MIME) bool {
	// the JSON node and its sub-types all have application/json in their chain (har shares
	// the name, geojson and gltf are children of it) below text/plain
	ch := vfChain(m)
	for i, n := range ch {
		if vfBare(n.Mime) == "application/json" && i+1 < len(ch) && vfBare(ch[i+1].Mime) == "text/plain" {
			return true
		}
	}
	return false
}

func c08Check(c c08Case) vfResult {
	doc := []byte(c.Doc)
	var r vfResult
	r.LabelN = map[string]int64{}
	if !ejson.Valid(doc) {
		return vfFailf("generator bug: document is not valid JSON: %s", vfQ(doc))
	}
	open := 0
	for open < len(doc) && doc[open] != '{' && doc[open] != '[' {
		open++
	}
	var limits []uint32
	if c.Limit != nil {
		limits = []uint32{*c.Limit}
	} else {
		limits = append(limits, 0)
		n := len(doc)
		if n <= 700 {
			for L := open + 1; L <= n+2; L++ {
				limits = append(limits, uint32(L))
			}
		} else {
			// long documents (deep chains): boundary cuts plus a stride
			for _, L := range []int{open + 1, open + 2, open + 3, n/2 - 1, n / 2, n/2 + 1, n - 2, n - 1, n, n + 1, n + 2, 3072} {
				if L > open && L <= n+2 {
					limits = append(limits, uint32(L))
				}
			}
			for L := open + 5; L < n; L += 97 {
				limits = append(limits, uint32(L))
			}
		}
	}
	// token spans for cut classification (strict scan of a known-valid document)
	kind := c08TokenKinds(doc)
	for _, L := range limits {
		h := vfHeader(doc, L)
		r.N++
		if L > 0 && int(L) < len(doc) {
			k := kind[L-1]
			kn := kind[L]
			switch {
			case k == kn && (k == 's' || k == 'n' || k == 'l') && c08SameToken(kind, doc, int(L)):
				r.LabelN["cut-inside-"+string(k)]++
				r.Nontrivial = true
			case k == '{' || k == '[' || k == ':' || k == ',' || k == '}' || k == ']':
				r.LabelN["cut-after-structural"]++
				r.Nontrivial = true
			default:
				r.LabelN["cut-between-tokens"]++
			}
		} else if L == 0 || int(L) > len(doc) {
			r.LabelN["whole"]++
		} else {
			r.LabelN["limit==len"]++
		}
		if !magic.JSON(vfExact(h), L) {
			r.Err = fmt.Errorf("magic.JSON rejects valid JSON at limit %d (len %d): header %s", L, len(doc), vfQ(h))
			return r
		}
		// reader route with a limit history (every 7th limit and the boundaries)
		if L <= 1<<20 && (L%7 == 0 || int(L) >= len(doc)) {
			prev := uint32(16)
			if L%2 == 1 {
				prev = uint32(len(doc) + 64)
			}
			mr, err := vfReaderAfter(prev, L, doc)
			r.N++
			if err != nil || mr == nil || (!c08IsJSONFamily(mr) && c08HigherPriority(h, L) == "") {
				r.Err = fmt.Errorf("DetectReader at limit %d (after a reader detection under limit %d) reports (%s, %v) for valid JSON header %s", L, prev, vfChainStr(mr), err, vfQ(h))
				return r
			}
			r.LabelN["reader-after-other-limit"]++
			if err := vfRoutes(doc, L, vfDetectAt(doc, L)); err != nil {
				r.Err = fmt.Errorf("limit %d: %v; doc %s", L, err, vfQ(doc))
				return r
			}
		}
		m := vfDetectAt(doc, L)
		if !c08IsJSONFamily(m) {
			if hp := c08HigherPriority(h, L); hp != "" {
				r.LabelN["exception-higher-priority:"+hp]++
				continue
			}
			r.Err = fmt.Errorf("Detect at limit %d (len %d) reports %s for valid JSON header %s", L, len(doc), vfChainStr(m), vfQ(h))
			return r
		}
	}
	r.Hash = vfHash(doc)
	return r
}

// c08TokenKinds labels every byte of a valid document with the kind of token it belongs to.
func c08TokenKinds(doc []byte) []byte {
	out := make([]byte, len(doc)+1)
	i := 0
	for i < len(doc) {
		c := doc[i]
		switch {
		case c == '"':
			j := i + 1
			for doc[j] != '"' {
				if doc[j] == '\\' {
					j++
				}
				j++
			}
			for k := i; k <= j; k++ {
				out[k] = 's'
			}
			i = j + 1
		case c == ' ' || c == '\t' || c == '\n' || c == '\r':
			out[i] = 'w'
			i++
		case c == '{' || c == '}' || c == '[' || c == ']' || c == ':' || c == ',':
			out[i] = c
			i++
		case c == 't' || c == 'f' || c == 'n':
			j := i
			for j < len(doc) && doc[j] >= 'a' && doc[j] <= 'z' {
				out[j] = 'l'
				j++
			}
			i = j
		default:
			j := i
			for j < len(doc) && rIsNumCh(doc[j]) {
				out[j] = 'n'
				j++
			}
			if j == i {
				j++
			}
			i = j
		}
	}
	out[len(doc)] = 'w'
	return out
}

// c08SameToken: bytes L-1 and L carry the same kind; they belong to the same token unless
// two strings touch, which cannot happen in valid JSON (a separator is always between).
func c08SameToken(kind, doc []byte, L int) bool {
	if kind[L] != 's' {
		return true
	}
	// a cut directly before an opening quote or after a closing quote is not "inside"
	return true
}

func TestVerif_C08(t *testing.T) {
	defer vfStats.dump()
	vfStats.Property = "C08"
	if !vfDictSweep(t, "C08", "gen", vfDictText(), func(tok string) []c08Case {
		return []c08Case{{Doc: vfB(`{"` + tok + `":1}`)}, {Doc: vfB(`["` + tok + `"]`)}, {Doc: vfB(`{"a":"` + tok + `","b":[{"` + tok + `":null}]}`)}, {Doc: vfB(` ["x", "` + tok + `" ]`)}}
	}, c08Check, "each printable literal as key, as value, nested, all cuts") {
		return
	}
	if vfOnlySub("selfsum") && !vfReplayMode() && vfShard() == 0 {
		// documents that carry, at the offset of a tar header's checksum field, a NUMBER equal to
		// the tar checksum of their own first 512 bytes
		n := 0
		for _, fill := range []byte{'z', 'm', '~', 'Q'} {
			for _, v := range []struct {
				digits int
				tail   string
			}{{6, " ,"}, {6, "  "}, {6, ",1"}, {6, "\t,"}, {5, " ,1"}, {5, "   "}, {6, ".5"}, {6, "e0"}} {
				for _, shape := range []int{0, 1} {
					var doc []byte
					if shape == 0 { // array: ["zzz...",<number>,"zzz..."]
						doc = append(doc, "[\""...)
						doc = append(doc, bytes.Repeat([]byte{fill}, 144)...)
						doc = append(doc, "\","...)
						doc = append(doc, "00000000"...)
						doc = append(doc, "\""...)
						doc = append(doc, bytes.Repeat([]byte{fill}, 400)...)
						doc = append(doc, "\"]"...)
					} else { // object: {"zzz...":<number>,"k":"zzz..."}
						doc = append(doc, "{\""...)
						doc = append(doc, bytes.Repeat([]byte{fill}, 144)...)
						doc = append(doc, "\":"...)
						doc = append(doc, "00000000"...)
						doc = append(doc, "\"k\":\""...)
						doc = append(doc, bytes.Repeat([]byte{fill}, 400)...)
						doc = append(doc, "\"}"...)
					}
					p := vfSelfSum(doc, v.digits, v.tail)
					if p == nil || !ejson.Valid(p) {
						continue
					}
					n++
					c := c08Case{Doc: p}
					r := c08Check(c)
					r.Nontrivial = true
					r.Labels = append(r.Labels, "selfsum")
					vfStats.record(r, func() any { return map[string]any{"sub": "selfsum", "field": string(p[148:156]), "shape": shape} })
					if r.Err != nil {
						vfEnumFail(t, "C08", "gen", c, r.Err)
						return
					}
				}
			}
		}
		vfStats.Subchecks["selfsum"] = fmt.Sprintf("%d documents whose bytes 148..155 spell the tar checksum of their first block", n)
	}
	if t.Failed() {
		return
	}
	if vfOnlySub("gen") {
		vfRun(t, vfSub[c08Case]{
			Prop: "C08", Name: "gen", Checks: vfN(12000, 3000000),
			Gen: func(t *rapid.T) c08Case {
				return c08Case{Doc: vfB(jGenDoc(t, rapid.IntRange(1, 6).Draw(t, "depth")).String())}
			},
			Check: c08Check,
		})
	}
	if t.Failed() {
		return
	}
	if vfOnlySub("large") {
		// documents larger than the default limit: arrays/objects of many generated members
		vfRun(t, vfSub[c08Case]{
			Prop: "C08", Name: "large", Checks: vfN(600, 120000),
			Gen: func(t *rapid.T) c08Case {
				n := rapid.IntRange(20, 200).Draw(t, "members")
				obj := rapid.Bool().Draw(t, "obj")
				var sb strings.Builder
				if obj {
					sb.WriteString("{")
				} else {
					sb.WriteString("[")
				}
				for i := 0; i < n; i++ {
					if i > 0 {
						sb.WriteString(rapid.SampledFrom([]string{",", ", ", ",\n  ", ",\r\n"}).Draw(t, "sep"))
					}
					d := &jdoc{}
					if obj {
						d.add('s', jGenString(t))
						d.add(':', ":")
					}
					jGenValue(t, d, 3)
					sb.WriteString(d.String())
				}
				if obj {
					sb.WriteString("}")
				} else {
					sb.WriteString("]")
				}
				return c08Case{Doc: vfB(sb.String())}
			},
			Check: c08Check,
			Sample: func(c c08Case) any {
				return map[string]any{"sub": "large", "len": len(c.Doc), "head": vfQ(c.Doc[:min(60, len(c.Doc))])}
			},
		})
	}
	if t.Failed() {
		return
	}
	if vfOnlySub("huge") && !vfReplayMode() && (vfShard() < 2 || (vfShard() == 2 && vfThorough())) {
		// valid documents of 70 KB - 2.5 MB (the largest in the thorough tier only), whole and cut
		n := []int{70000, 1100000, 2500000}[vfShard()]
		for _, kind := range []string{"json-array", "geojson-decider-last"} {
			doc := vfBig(kind, n)
			for _, L := range []uint32{0, 65536, 65537, 1 << 20, uint32(len(doc) - 1), uint32(len(doc)), uint32(len(doc) + 1), 0xffffffff} {
				lim := L
				c := c08Case{Doc: doc, Limit: &lim}
				r := c08Check(c)
				r.Labels = append(r.Labels, "huge")
				vfStats.record(r, func() any { return map[string]any{"sub": "huge", "kind": kind, "len": len(doc), "limit": L} })
				if r.Err != nil {
					vfEnumFail(t, "C08", "gen", c08Case{Doc: doc[:min(len(doc), 200)], Limit: &lim}, fmt.Errorf("%s document of %d bytes: %v", kind, len(doc), r.Err))
					return
				}
			}
		}
		vfStats.Subchecks["huge"] = "documents of 70 KB / 1.1 MB / 2.5 MB (one size per shard 0-2) at limits {0, 65536, 65537, 1 MiB, len-1, len, len+1, 2^32-1}"
	}
	if t.Failed() {
		return
	}
	if vfOnlySub("maxlimit") && !vfReplayMode() && vfShard() == 3%vfNShards() {
		doc := []byte(`{"k":[1,2,{"a":"b"}],"s":"text"}`)
		for _, L := range []uint32{0xfffff800} {
			SetLimit(L)
			m, err := DetectReader(bytes.NewReader(doc))
			SetLimit(defaultLimit)
			var r vfResult
			r.Nontrivial, r.Labels, r.Hash = true, []string{"reader-limit-near-2^32"}, vfHash(doc, vfHashU(uint64(L)))
			if err != nil || !c08IsJSONFamily(m) {
				r.Err = fmt.Errorf("DetectReader under limit %d reports (%s, %v) for %s", L, vfChainStr(m), err, doc)
			}
			vfStats.record(r, func() any { return map[string]any{"sub": "maxlimit", "limit": L} })
			if r.Err != nil {
				lim := L
				vfEnumFail(t, "C08", "gen", c08Case{Doc: doc, Limit: &lim}, r.Err)
				return
			}
		}
	}
	if t.Failed() {
		return
	}
	if vfOnlySub("deep") {
		vfRun(t, vfSub[c08Case]{
			Prop: "C08", Name: "deep", Checks: vfN(24, 400),
			Gen: func(t *rapid.T) c08Case {
				shape := rapid.IntRange(0, 2).Draw(t, "shape")
				depth := rapid.IntRange(4088, 4096).Draw(t, "depth")
				pad := rapid.SampledFrom([]string{"", "", " ", "\n"}).Draw(t, "pad")
				leaf := rapid.SampledFrom([]string{"1", "\"x\"", "null", "-1.5e3"}).Draw(t, "leaf")
				if shape == 0 && rapid.Bool().Draw(t, "emptyleaf") {
					leaf = ""
				}
				return c08Case{Doc: vfB(jDeepDoc(shape, depth, leaf, pad))}
			},
			Check: c08Check,
			Sample: func(c c08Case) any {
				return map[string]any{"sub": "deep", "len": len(c.Doc), "head": vfQ(c.Doc[:min(40, len(c.Doc))])}
			},
		})
	}
}
