//go:build verif

package mimetype

import (
	"fmt"
	"strings"
	"testing"

	"github.com/gabriel-vasile/mimetype/internal/magic"
	"pgregory.net/rapid"
)

// C09 — malformed JSON is not reported as JSON.
//
// Oracle: the relaxed-grammar recogniser R (vfJSONRef). For a header h examined under limit L:
//   whole mode     (L == 0 or len(h) < L):  JSON verdict  =>  h is a member of R
//   truncated mode (L > 0 and len(h) == L): JSON verdict  =>  h is a prefix of a member of R
// "JSON verdict" = magic.JSON / GeoJSON / HAR / GLTF called directly, and Detect reporting
// something in the application/json family.

type c09Case struct {
	H     vfB    `json:"h"`
	Limit uint32 `json:"limit"`
}

var c09Alphabet = []byte{'[', ']', '{', '}', '"', ':', ',', ' ', '\\', 'n', 'u', 'l', '1', '-', '.', 'e'}

// second alphabet: the literals true/false, a second digit, exponent sign, TAB/LF as white space
var c09Alphabet2 = []byte{'[', ']', '{', '}', '"', ':', ',', '\n', 't', 'r', 'u', 'e', 'f', 'a', 'l', 's'}
var c09Alphabet3 = []byte{'[', ']', '{', '}', '"', ':', ',', '\t', '0', '9', '+', 'E', '.', '-', '\\', '/'}

func c09Check(c c09Case) vfResult {
	full := []byte(c.H)
	h := vfHeader(full, c.Limit)
	whole := c.Limit == 0 || len(h) < int(c.Limit)
	member, prefix := vfJSONRef(h, false)
	ok := member
	mode := "whole"
	if !whole {
		ok = prefix
		mode = "truncated"
	}
	var r vfResult
	r.Labels = append(r.Labels, mode)
	if ok {
		r.Labels = append(r.Labels, "in-language")
	}
	// non-trivial: the parser is actually entered (first non-space byte opens a container)
	for _, b := range h {
		if rIsWS(b) {
			continue
		}
		r.Nontrivial = b == '{' || b == '['
		break
	}
	r.Hash = vfHash(full, vfHashU(uint64(c.Limit)))
	hx := vfExact(h)
	accepted := false
	for name, det := range map[string]func([]byte, uint32) bool{"JSON": magic.JSON, "GeoJSON": magic.GeoJSON, "HAR": magic.HAR, "GLTF": magic.GLTF} {
		if det(hx, c.Limit) {
			accepted = true
			if !ok {
				r.Err = fmt.Errorf("magic.%s accepts %s at limit %d (%s mode) but it is not %s well-formed JSON", name, vfQ(h), c.Limit, mode, map[bool]string{true: "", false: "a prefix of"}[whole])
				return r
			}
		}
	}
	if accepted {
		r.Labels = append(r.Labels, "accepted")
	}
	if accepted || len(full) <= 4 || !ok {
		// Detect level. (When no JSON check accepts and the string is in the language anyway there
		// is nothing to learn; skipping keeps the exhaustive sweep affordable.)
		if !ok || accepted {
			m := vfDetectAt(full, c.Limit)
			if c08IsJSONFamily(m) || vfInFamily(m, "application/geo+json") || vfInFamily(m, "model/gltf+json") {
				if !ok {
					r.Err = fmt.Errorf("Detect reports %s for %s at limit %d (%s mode), which is not well-formed", vfChainStr(m), vfQ(h), c.Limit, mode)
				}
			}
		}
	}
	if r.Err == nil && len(full) > 0 && (r.Hash%12 == 0 || len(full) > 2500) {
		// route (d): let the first read end exactly where the longest complete JSON value ends
		vfRouteCut = 0
		for k := len(full) - 1; k > 0; k-- {
			if full[k-1] == ']' || full[k-1] == '}' {
				if member, _ := vfJSONRef(full[:k], false); member {
					vfRouteCut = k
					break
				}
			}
			if len(full)-k > 64 {
				break
			}
		}
		defer func() { vfRouteCut = 0 }()
		if err := vfRoutes(full, c.Limit, vfDetectAt(full, c.Limit)); err != nil {
			r.Err = fmt.Errorf("%v; input %s", err, vfQ(full))
		}
	}
	return r
}

// c09Enumerate sweeps every string over the alphabet up to maxLen, in both modes.
// Strings that do not start with ws*[[{] never enter the parser; they are evaluated through
// the cheap direct calls only (Detect is run for the rest).
func c09Enumerate(t *testing.T, c09Alphabet []byte, maxLen int, onlyOpening bool) {
	sh, nsh := vfShard(), vfNShards()
	na := len(c09Alphabet)
	buf := make([]byte, maxLen)
	var evals, nontriv int64
	var samples int
	for n := 1; n <= maxLen; n++ {
		total := 1
		for i := 0; i < n; i++ {
			total *= na
		}
		for idx := sh; idx < total; idx += nsh {
			x := idx
			for i := n - 1; i >= 0; i-- {
				buf[i] = c09Alphabet[x%na]
				x /= na
			}
			h := buf[:n]
			// fast path: not even looking like an object or array
			k := 0
			for k < n && rIsWS(h[k]) {
				k++
			}
			opening := k < n && (h[k] == '[' || h[k] == '{')
			if !opening {
				if onlyOpening {
					continue
				}
				evals += 2
				if magic.JSON(h, 0) || magic.JSON(h, uint32(n)) {
					c := c09Case{H: append(vfB(nil), h...), Limit: 0}
					vfEnumFail(t, "C09", "enum", c, fmt.Errorf("magic.JSON accepts %s which does not open with a bracket", vfQ(h)))
					return
				}
				continue
			}
			for _, lim := range []uint32{0, uint32(n)} {
				evals++
				nontriv++
				member, prefix := vfJSONRef(h, false)
				ok := member
				if lim != 0 {
					ok = prefix
				}
				acc := magic.JSON(h, lim)
				if acc && !ok {
					c := c09Case{H: append(vfB(nil), h...), Limit: lim}
					r := c09Check(c)
					if r.Err == nil {
						r.Err = fmt.Errorf("magic.JSON accepts %s at limit %d", vfQ(h), lim)
					}
					vfEnumFail(t, "C09", "enum", c, r.Err)
					return
				}
				if acc || n <= 4 {
					c := c09Case{H: append(vfB(nil), h...), Limit: lim}
					r := c09Check(c)
					if r.Err != nil {
						vfEnumFail(t, "C09", "enum", c, r.Err)
						return
					}
					if acc && samples < 6 && n >= 4 && idx%7 == 0 {
						samples++
						vfStats.addSample(map[string]any{"sub": "enum", "case": c, "accepted": true})
					}
				}
				if acc {
					vfStats.label("enum-accepted", 1)
				} else if ok {
					vfStats.label("enum-in-language-but-rejected(allowed)", 1)
				}
			}
		}
	}
	vfStats.recordBulk(evals, nontriv)
	vfStats.Exhaustive = true
	vfStats.Subchecks["enum:"+string(c09Alphabet[7:10])] = fmt.Sprintf("all strings over the %d-symbol alphabet %q up to length %d%s, modes whole(limit 0) and truncated(limit=len); shard takes every %d-th index", na, string(c09Alphabet), maxLen, map[bool]string{true: " that open with ws*[[{]", false: ""}[onlyOpening], nsh)
}

var c09MutBytes = []byte{'[', ']', '{', '}', '"', ':', ',', ' ', '\\', 'n', 'u', 't', 'f', '1', '-', '.', 'e', 'a', '\n', 0x00, 0xff, '0'}

func c09GenMutant(t *rapid.T) c09Case {
	if rapid.IntRange(0, 39).Draw(t, "long") == 0 {
		// a complete document, white space up to somewhere behind the default limit, then garbage
		// (or nothing); examined with a raised limit through every route
		doc := []byte(jGenDoc(t, 3).String())
		pad := rapid.IntRange(3000, 7000).Draw(t, "padto")
		for len(doc) < pad {
			doc = append(doc, rapid.SampledFrom([]string{" ", "\n", " \t", "\r\n"}).Draw(t, "ws")...)
		}
		doc = append(doc, rapid.SampledFrom([]string{"", "}}]", "{\"b\":2}", "x", ",", "]"}).Draw(t, "garbage")...)
		return c09Case{H: doc, Limit: rapid.SampledFrom([]uint32{0, uint32(len(doc) + 1), 8192, 16384, uint32(len(doc)), 3072, 4096}).Draw(t, "longlim")}
	}
	if rapid.IntRange(0, 99).Draw(t, "deepgarbage") == 0 {
		// more than 4096 open containers, then something that is not JSON; limit = len (truncated mode)
		shape := rapid.SampledFrom([]string{"[", "{\"k\":", "[ ", "[{\"k\":"}).Draw(t, "dshape")
		doc := []byte(strings.Repeat(shape, rapid.IntRange(4090, 5200).Draw(t, "ddepth")))
		doc = append(doc, rapid.SampledFrom([]string{"}}}} this : is , not ] json", "]]]]x", " , , ,", "\"unterminated", "1 2 3", ""}).Draw(t, "dgarbage")...)
		return c09Case{H: doc, Limit: rapid.SampledFrom([]uint32{uint32(len(doc)), 0, uint32(len(doc) + 1), uint32(len(doc) - 3)}).Draw(t, "dlim")}
	}
	if rapid.IntRange(0, 19).Draw(t, "tarwin") == 0 {
		// an array whose item separator / a number sits at offsets 148..155, in a document >= 512 bytes
		pre := "[\"" + strings.Repeat("a", rapid.IntRange(138, 146).Draw(t, "prelen")) + "\""
		mid := rapid.SampledFrom([]string{" 01234567,2", ",01234567 ,2", " 0001750\x00,2", ",1234567,2", "   1234 ,2"}).Draw(t, "mid")
		doc := []byte(pre + mid + ",\"" + strings.Repeat("b", 400) + "\"]")
		return c09Case{H: doc, Limit: rapid.SampledFrom([]uint32{0, 3072, uint32(len(doc)), uint32(len(doc) + 1)}).Draw(t, "twl")}
	}
	doc := []byte(jGenDoc(t, rapid.IntRange(1, 4).Draw(t, "depth")).String())
	nm := rapid.IntRange(1, 2).Draw(t, "nmut")
	for i := 0; i < nm && len(doc) > 0; i++ {
		p := rapid.IntRange(0, len(doc)-1).Draw(t, "p")
		switch rapid.IntRange(0, 6).Draw(t, "op") {
		case 0: // delete
			doc = append(doc[:p], doc[p+1:]...)
		case 1: // insert
			v := rapid.SampledFrom(c09MutBytes).Draw(t, "v")
			doc = append(doc[:p], append([]byte{v}, doc[p:]...)...)
		case 2: // replace
			doc[p] = rapid.SampledFrom(c09MutBytes).Draw(t, "v")
		case 3: // duplicate
			doc = append(doc[:p+1], doc[p:]...)
		case 4: // swap neighbours
			if p+1 < len(doc) {
				doc[p], doc[p+1] = doc[p+1], doc[p]
			}
		case 5: // drop the last closer
			for j := len(doc) - 1; j >= 0; j-- {
				if doc[j] == ']' || doc[j] == '}' {
					doc = append(doc[:j], doc[j+1:]...)
					break
				}
			}
		case 6: // splice: cut the middle out
			q := rapid.IntRange(p, len(doc)).Draw(t, "q")
			doc = append(doc[:p], doc[q:]...)
		}
	}
	var lim uint32
	switch rapid.IntRange(0, 3).Draw(t, "lk") {
	case 0:
		lim = 0
	case 1:
		lim = uint32(len(doc))
	case 2:
		lim = uint32(len(doc) + 1)
	default:
		lim = uint32(rapid.IntRange(1, len(doc)+1).Draw(t, "lim"))
	}
	return c09Case{H: doc, Limit: lim}
}

func TestVerif_C09(t *testing.T) {
	defer vfStats.dump()
	vfStats.Property = "C09"
	if vfOnlySub("enum") {
		vfRun(t, vfSub[c09Case]{Prop: "C09", Name: "enum", Check: c09Check})
		if !vfReplayMode() && !t.Failed() {
			c09Enumerate(t, c09Alphabet, 6, false)
			if !t.Failed() {
				c09Enumerate(t, c09Alphabet2, 6, true)
			}
			if !t.Failed() {
				c09Enumerate(t, c09Alphabet3, 6, true)
			}
			if vfThorough() && !t.Failed() {
				c09Enumerate(t, c09Alphabet, 7, false)
			}
			if vfThorough() && !t.Failed() {
				c09Enumerate(t, c09Alphabet, 8, true)
			}
			if vfThorough() && !t.Failed() {
				c09Enumerate(t, c09Alphabet2, 7, true)
				c09Enumerate(t, c09Alphabet3, 7, true)
			}
		}
	}
	if t.Failed() {
		return
	}
	if vfOnlySub("lex") && !vfReplayMode() {
		// every byte value at the lexical hot spots: escape character, the four hex digits, the
		// characters of numbers and literals, separators, around the document
		tpls := []string{"[\"\\uS000\"]", "[\"\\u0S00\"]", "[\"\\u00S0\"]", "[\"\\u000S\"]", "{\"\\u00S9\":1}", "[\"\\S\"]", "[\"a\\Sb\"]", "{\"k\\S\":[]}",
			"[S]", "[1S]", "[-S]", "[1.S]", "[1eS]", "[1e+S]", "[0S]", "[-0S1]", "[tSue]", "[nulS]", "[falsS]", "[Srue]", "{\"a\"S1}", "{\"a\":1S\"b\":2}", "[1S2]", "[\"a\"S]",
			"S[1]", "[1]S", "{S\"a\":1}", "[\"S\"]", "{\"S\":1}", "[[]S[]]", "{\"a\":{}S}", "[1,S]", "{\"a\":1,S}"}
		sh, nsh := vfShard(), vfNShards()
		n := 0
		for ti, tpl := range tpls {
			if ti%nsh != sh {
				continue
			}
			slot := strings.IndexByte(tpl, 'S')
			for v := 0; v < 256; v++ {
				doc := []byte(tpl)
				doc[slot] = byte(v)
				for _, L := range []uint32{0, uint32(len(doc)), uint32(len(doc) + 1), uint32(slot + 1), uint32(slot + 2)} {
					c := c09Case{H: doc, Limit: L}
					r := c09Check(c)
					n++
					r.Labels = append(r.Labels, "lex")
					vfStats.record(r, func() any { return map[string]any{"sub": "lex", "template": tpl, "byte": v, "limit": L} })
					if r.Err != nil {
						vfEnumFail(t, "C09", "mut", c, r.Err)
						return
					}
				}
			}
		}
		// long tokens (digit runs, strings, white space, fractions, exponents of 17-24 bytes): every
		// byte value at every position of the token - scans that take 8 or 16 bytes at a time
		long := []struct{ pre, tok, post string }{{"[", "12345678901234567", "]"}, {"{\"x\": ", "123456789012345678", "}"}, {"[\"", "abcdefghijklmnopqrstuvwx", "\"]"}, {"{\"name\":\"", "C:/programs and files/of some length/and more.txt", "\"}"},
			{"[1,", "                 ", "2]"}, {"[0.", "12345678901234567", "]"}, {"[1e", "12345678901234567", "]"}, {"[-", "12345678901234567", ",1]"}, {"{\"", "kkkkkkkkkkkkkkkkkkkk", "\":1}"}}
		for li, lt := range long {
			if li%nsh != sh {
				continue
			}
			for p := 0; p < len(lt.tok); p++ {
				for v := 0; v < 256; v++ {
					doc := []byte(lt.pre + lt.tok + lt.post)
					doc[len(lt.pre)+p] = byte(v)
					for _, L := range []uint32{0, uint32(len(doc)), uint32(len(lt.pre) + len(lt.tok)), uint32(len(lt.pre) + len(lt.tok) - 2)} {
						c := c09Case{H: doc, Limit: L}
						r := c09Check(c)
						n++
						r.Labels = append(r.Labels, "lex-long-token")
						vfStats.record(r, func() any { return map[string]any{"sub": "lex", "token": lt.tok, "pos": p, "byte": v, "limit": L} })
						if r.Err != nil {
							vfEnumFail(t, "C09", "mut", c, r.Err)
							return
						}
					}
				}
			}
		}
		vfStats.Subchecks["lex"] = fmt.Sprintf("%d templates with one slot x 256 byte values x 5 limits, %d long tokens x every position x 256 values (this shard: %d cases)", len(tpls), len(long), n)
	}
	if t.Failed() {
		return
	}
	if vfOnlySub("huge") && !vfReplayMode() && vfShard() < 2 {
		// a complete 70 KB / 1.1 MB document followed by something that does not belong there
		base := vfBig("json-array", []int{70000, 1100000}[vfShard()])
		if vfShard() == 1 {
			// one size beyond 2^23 and one beyond 2^24 bytes as well
			for _, n := range []int{9 << 20, 17 << 20} {
				big := vfBig("json-array", n)
				for _, tail := range []string{"x", "]"} {
					doc := append(append([]byte(nil), big...), tail...)
					c := c09Case{H: doc, Limit: 0}
					r := c09Check(c)
					r.Labels = append(r.Labels, "huge")
					vfStats.record(r, func() any { return map[string]any{"sub": "huge", "len": len(doc), "tail": tail} })
					if r.Err != nil {
						vfEnumFail(t, "C09", "mut", c09Case{H: doc[len(doc)-100:], Limit: 0}, fmt.Errorf("%d-byte complete document followed by %q: %v", len(big), tail, r.Err))
						return
					}
				}
			}
		}
		for _, tail := range []string{"x", "]", ",", "{\"a\":1}", " \x0c", "\n[1]"} {
			doc := append(append([]byte(nil), base...), tail...)
			for _, L := range []uint32{0, uint32(len(doc) + 1), 2 << 20} {
				c := c09Case{H: doc, Limit: L}
				r := c09Check(c)
				r.Labels = append(r.Labels, "huge")
				vfStats.record(r, func() any { return map[string]any{"sub": "huge", "len": len(doc), "tail": tail, "limit": L} })
				if r.Err != nil {
					vfEnumFail(t, "C09", "mut", c09Case{H: doc[len(doc)-100:], Limit: 0}, fmt.Errorf("%d-byte complete document followed by %q, limit %d: %v", len(base), tail, L, r.Err))
					return
				}
			}
		}
	}
	if t.Failed() {
		return
	}
	if vfOnlySub("mut") {
		vfRun(t, vfSub[c09Case]{Prop: "C09", Name: "mut", Checks: vfN(60000, 12000000), Gen: c09GenMutant, Check: c09Check})
	}
}
