//go:build verif

package mimetype

import (
	ejson "encoding/json"
	"fmt"
	"strings"
	"testing"

	"pgregory.net/rapid"
)

// C10 — JSON sub-types are decided by top-level members, wherever they appear.
//
// Generator (construction oracle): a top-level object whose members are, in random order,
// deciding members (geo / har / gltf), look-alikes and arbitrary siblings. The generator
// records the byte span [start,end) of every deciding member (from its top-level key to the
// end of the innermost deciding value). For a limit L that does not fall strictly inside such
// a span, the deciding kinds visible are those whose span ends <= L (all when L = 0), and the
// expected verdict is geo > har > gltf > plain json.

type c10Span struct {
	Kind  int `json:"kind"` // 1 geo, 2 har, 3 gltf
	Start int `json:"start"`
	End   int `json:"end"`
}

type c10Case struct {
	Doc   vfB       `json:"doc"`
	Limit uint32    `json:"limit"`
	Spans []c10Span `json:"spans"`
	Flags []string  `json:"flags"`
	Prime vfB       `json:"prime,omitempty"` // another input detected immediately before (its parse may abort anywhere)
}

var c10GeoTypes = []string{"Feature", "FeatureCollection", "Point", "LineString", "Polygon", "MultiPoint", "MultiLineString", "MultiPolygon", "GeometryCollection"}

type c10Builder struct {
	b []byte
	t *rapid.T
}

func (w *c10Builder) s(x string) { w.b = append(w.b, x...) }
func (w *c10Builder) ws() {
	if rapid.IntRange(0, 59).Draw(w.t, "longws") == 0 {
		// white space of any length is layout, nothing more
		w.s(strings.Repeat(rapid.SampledFrom([]string{" ", "\n", " \t", "\r\n"}).Draw(w.t, "wsunit"), rapid.SampledFrom([]int{120, 250, 300, 1000, 2500}).Draw(w.t, "wsn")))
		return
	}
	w.s(rapid.SampledFrom(jWS).Draw(w.t, "ws"))
}

var c10InnerKeys = []string{"a", "b", "type", "log", "asset", "version", "creator", "entries", "pages", "k y", ""}
var c10Scalars = []string{"1", "-2.5e3", "true", "false", "null", `"x"`, `""`, `"\ud83d"`, `"x\uDC00y"`, `"\ud800\u0041"`, `"type"`, `"log"`, `"asset"`, `"log.version"`, `"Feature"`, `"2.0"`, `"1.0"`, `"version"`, `"a,b]}"`, `"é\n"`, `"é"`}

// value writes an arbitrary JSON value; returns true if it is a non-empty container.
func (w *c10Builder) value(depth int) bool {
	k := rapid.IntRange(0, 7).Draw(w.t, "vk")
	if depth <= 0 && k >= 4 {
		k -= 4
	}
	switch k {
	case 0, 1, 2:
		w.s(rapid.SampledFrom(c10Scalars).Draw(w.t, "sc"))
		return false
	case 3:
		if rapid.Bool().Draw(w.t, "ea") {
			w.s("[")
			w.ws()
			w.s("]")
		} else {
			w.s("{")
			w.ws()
			w.s("}")
		}
		return false
	case 4, 5:
		w.s("[")
		n := rapid.IntRange(1, 3).Draw(w.t, "n")
		for i := 0; i < n; i++ {
			if i > 0 {
				w.s(",")
			}
			w.ws()
			w.value(depth - 1)
			w.ws()
		}
		w.s("]")
		return true
	default:
		w.s("{")
		n := rapid.IntRange(1, 3).Draw(w.t, "n")
		for i := 0; i < n; i++ {
			if i > 0 {
				w.s(",")
			}
			w.ws()
			w.s(`"` + rapid.SampledFrom(c10InnerKeys).Draw(w.t, "ik") + `"`)
			w.ws()
			w.s(":")
			w.ws()
			w.value(depth - 1)
			w.ws()
		}
		w.s("}")
		return true
	}
}

// innerObject writes {fillers, key:val, fillers}; returns the offset just after the deciding
// value. val == "" means an arbitrary generated value.
func (w *c10Builder) innerObject(key, val string, fillerKeys []string) (decEnd int, hadContainerBefore bool) {
	w.s("{")
	before := rapid.IntRange(0, 2).Draw(w.t, "fb")
	after := rapid.IntRange(0, 2).Draw(w.t, "fa")
	filler := func() bool {
		w.ws()
		w.s(`"` + rapid.SampledFrom(fillerKeys).Draw(w.t, "fk") + `"`)
		w.ws()
		w.s(":")
		w.ws()
		c := w.value(2)
		w.ws()
		return c
	}
	for i := 0; i < before; i++ {
		if filler() {
			hadContainerBefore = true
		}
		w.s(",")
	}
	w.ws()
	w.s(`"` + key + `"`)
	w.ws()
	w.s(":")
	w.ws()
	if val == "" {
		w.value(2)
	} else {
		w.s(val)
	}
	decEnd = len(w.b)
	w.ws()
	for i := 0; i < after; i++ {
		w.s(",")
		filler()
	}
	w.s("}")
	return decEnd, hadContainerBefore
}

func c10Gen(t *rapid.T) c10Case {
	w := &c10Builder{t: t}
	var c c10Case
	flags := map[string]bool{}
	w.ws()
	w.s("{")
	n := rapid.IntRange(0, 6).Draw(t, "nmembers")
	containerSeen := false
	sibKeys := []string{"a", "b", "accessors", "features", "pages", "Type", "types", "logs", "Log", "assets", "version", "creator", "entries", "", "k"}
	fillerKeys := []string{"a", "b", "pages", "comment", "generator", "copyright", "type", "log", "asset", "x"}
	for i := 0; i < n; i++ {
		if i > 0 {
			w.s(",")
		}
		w.ws()
		start := len(w.b)
		switch rapid.IntRange(0, 9).Draw(t, "mk") {
		case 0: // deciding: geo
			w.s(`"type"`)
			w.ws()
			w.s(":")
			w.ws()
			w.s(`"` + rapid.SampledFrom(c10GeoTypes).Draw(t, "geo") + `"`)
			c.Spans = append(c.Spans, c10Span{1, start, len(w.b)})
			if containerSeen {
				flags["deciding-after-nonempty-container"] = true
			}
		case 1: // deciding: har
			w.s(`"log"`)
			w.ws()
			w.s(":")
			w.ws()
			end, cb := w.innerObject(rapid.SampledFrom([]string{"version", "creator", "entries"}).Draw(t, "hk"), "", fillerKeys)
			c.Spans = append(c.Spans, c10Span{2, start, end})
			if containerSeen || cb {
				flags["deciding-after-nonempty-container"] = true
			}
			containerSeen = true
		case 2: // deciding: gltf
			w.s(`"asset"`)
			w.ws()
			w.s(":")
			w.ws()
			end, cb := w.innerObject("version", rapid.SampledFrom([]string{`"2.0"`, `"1.0"`}).Draw(t, "gv"), fillerKeys)
			c.Spans = append(c.Spans, c10Span{3, start, end})
			if containerSeen || cb {
				flags["deciding-after-nonempty-container"] = true
			}
			containerSeen = true
		case 3: // look-alikes
			flags["look-alike"] = true
			la := rapid.SampledFrom([]string{
				`"type":"Foo"`, `"type":"feature"`, `"type":"Feature "`, `"type":["Feature"]`, `"type":{"type":"Feature"}`, `"type":1`,
				`"type":"Features"`, `"type":null`, `"Type":"Feature"`, `"typ":"Feature"`,
				`"log":[{"version":1}]`, `"log":{"other":1}`, `"log":"version"`, `"log":{"x":{"version":1}}`, `"log":{}`, `"log":[]`, `"log":{"Version":1}`,
				`"asset":{"version":"3.0"}`, `"asset":{"version":2.0}`, `"asset":{"x":{"version":"2.0"}}`, `"asset":[{"version":"2.0"}]`, `"asset":{"version":"2.0.0"}`,
				`"asset":{"version":["2.0"]}`, `"asset":{"Version":"2.0"}`, `"asset":"2.0"`,
				`"version":"2.0"`, `"version":1`, `"entries":[]`, `"creator":{}`,
				// one key that spells a whole path; values and array items spelled like the deciding keys
				`"log.version":"1.2"`, `"log.creator":{}`, `"log.entries":[]`, `"log/version":1`, `"log version":1`, `"logversion":1`, `"log,version":1`, `"log:version":1`,
				`"asset.version":"2.0"`, `"asset/version":"2.0"`, `"asset version":"1.0"`, `"assetversion":"2.0"`, `".type":"Feature"`, `"type.":"Point"`, `"a.type":"Feature"`,
				`"sink":"log"`, `"tags":["asset"]`, `"required":["type","coordinates"]`, `"k":"type"`, `"note":"asset"`, `"kinds":["log","asset","type"]`,
				`"quoted":"x\"type\":\"Feature\""`, `"quoted":"\"log\":{\"version\":1}"`, `"q":"\"asset\""`,
				`"x":{"type":"Feature"}`, `"x":[{"type":"Feature"}]`, `"x":{"log":{"version":1}}`, `"x":{"asset":{"version":"2.0"}}`,
			}).Draw(t, "la")
			if rapid.IntRange(0, 7).Draw(t, "padded") == 0 {
				// keys and values that only BEGIN like the deciding ones, 1-65536 bytes longer
				pad := strings.Repeat("x", rapid.SampledFrom([]int{1, 249, 256, 512, 65536}).Draw(t, "padn"))
				la = rapid.SampledFrom([]string{`"log":{"version` + pad + `":1}`, `"log":{"creator` + pad + `":{}}`, `"log":{"entries` + pad + `":[]}`, `"asset":{"version` + pad + `":"2.0"}`,
					`"type` + pad + `":"Feature"`, `"type":"Feature` + pad + `"`, `"asset":{"version":"2.0` + pad + `"}`, `"log` + pad + `":{"version":1}`, `"asset` + pad + `":{"version":"1.0"}`}).Draw(t, "paddedla")
			}
			w.s(la)
			for _, ch := range la {
				if ch == '[' || ch == '{' {
					containerSeen = true // every look-alike container here is non-empty or harmless
				}
			}
		default: // arbitrary sibling
			w.s(`"` + rapid.SampledFrom(sibKeys).Draw(t, "sk") + `"`)
			w.ws()
			w.s(":")
			w.ws()
			if w.value(3) {
				containerSeen = true
				flags["sibling-nonempty-container"] = true
			}
		}
		w.ws()
	}
	if n == 0 {
		w.ws()
	}
	w.s("}")
	w.ws()
	c.Doc = w.b
	kinds := map[int]bool{}
	for _, s := range c.Spans {
		kinds[s.Kind] = true
	}
	if len(kinds) >= 2 {
		flags["two-deciding-kinds"] = true
	}
	for f := range flags {
		c.Flags = append(c.Flags, f)
	}
	sortStrings(c.Flags)
	if rapid.IntRange(0, 2).Draw(t, "prime") == 0 {
		switch rapid.IntRange(0, 3).Draw(t, "pk") {
		case 0:
			c.Prime = vfB(rapid.SampledFrom(c04Special).Draw(t, "sp"))
		case 1:
			c.Prime = vfB(strings.Repeat(rapid.SampledFrom([]string{"[", "{\"a\":", "[{\"k\":", "[[1],"}).Draw(t, "deepshape"), rapid.SampledFrom([]int{100, 129, 200, 600, 1500}).Draw(t, "deepn")))
		case 2:
			c.Prime = vfB(c04DeepKeys(rapid.SampledFrom([]int{100, 129, 300}).Draw(t, "dk"), rapid.Bool().Draw(t, "close")))
		default:
			c.Prime = c09GenMutant(t).H
		}
	}
	// limit: 0, len, len+1, or a cut that is not strictly inside a deciding span
	nlen := len(c.Doc)
	switch rapid.IntRange(0, 5).Draw(t, "lk") {
	case 0, 1:
		c.Limit = 0
	case 2:
		c.Limit = uint32(nlen)
	case 3:
		c.Limit = uint32(nlen + 1)
	default:
		first := 0
		for first < nlen && c.Doc[first] != '{' {
			first++
		}
		L := rapid.IntRange(first+1, nlen+1).Draw(t, "L")
		for _, s := range c.Spans {
			if L > s.Start && L < s.End {
				if rapid.Bool().Draw(t, "snap") {
					L = s.End
				} else {
					L = s.Start
				}
			}
		}
		if L <= first {
			L = first + 1
		}
		c.Limit = uint32(L)
	}
	return c
}

func sortStrings(s []string) {
	for i := 1; i < len(s); i++ {
		for j := i; j > 0 && s[j] < s[j-1]; j-- {
			s[j], s[j-1] = s[j-1], s[j]
		}
	}
}

func c10Check(c c10Case) vfResult {
	doc := []byte(c.Doc)
	if !ejson.Valid(doc) {
		return vfFailf("generator bug: invalid JSON %s", vfQ(doc))
	}
	L := int(c.Limit)
	for _, s := range c.Spans {
		if L != 0 && L > s.Start && L < s.End {
			return vfResult{Skip: "limit-inside-deciding-span"}
		}
	}
	visible := map[int]bool{}
	for _, s := range c.Spans {
		if L == 0 || s.End <= L {
			visible[s.Kind] = true
		}
	}
	wantMime, wantExt, kind := "application/json", ".json", "plain"
	switch {
	case visible[1]:
		wantMime, wantExt, kind = "application/geo+json", ".geojson", "geo"
	case visible[2]:
		wantMime, wantExt, kind = "application/json", ".har", "har"
	case visible[3]:
		wantMime, wantExt, kind = "model/gltf+json", ".gltf", "gltf"
	}
	var r vfResult
	if len(c.Prime) > 0 {
		_ = Detect([]byte(c.Prime))
		r.Labels = append(r.Labels, "primed")
	}
	m := vfDetectAt(doc, c.Limit)
	r.Labels = append(r.Labels, "expect-"+kind)
	r.Labels = append(r.Labels, c.Flags...)
	if L != 0 && L <= len(doc) {
		r.Labels = append(r.Labels, "truncated")
	}
	r.Nontrivial = len(c.Flags) > 0
	r.Hash = vfHash(doc, vfHashU(uint64(c.Limit)), c.Prime)
	if m.String() != wantMime || m.Extension() != wantExt {
		r.Err = fmt.Errorf("limit %d: want %s (%s), got %s; doc %s", c.Limit, wantMime, wantExt, vfChainStr(m), vfQ(doc))
	} else if err := vfRoutes(doc, c.Limit, m); err != nil {
		r.Err = fmt.Errorf("limit %d: %v; doc %s", c.Limit, err, vfQ(doc))
	}
	return r
}

func TestVerif_C10(t *testing.T) {
	defer vfStats.dump()
	vfStats.Property = "C10"
	if !vfDictSweep(t, "C10", "gen", vfDictText(), func(tok string) []c10Case {
		flags := []string{"look-alike"}
		out := []c10Case{{Doc: vfB(`{"` + tok + `":1}`), Flags: flags}, {Doc: vfB(`{"k":"` + tok + `","n":["` + tok + `"]}`), Flags: flags},
			{Doc: vfB(`{"` + tok + `":{"` + tok + `":"` + tok + `"}}`), Flags: flags}}
		// as the value of a top-level "type" member: GeoJSON exactly for the nine names
		d := `{"type":"` + tok + `"}`
		c := c10Case{Doc: vfB(d), Flags: flags}
		for _, g := range c10GeoTypes {
			if g == tok {
				c.Spans = []c10Span{{1, 1, len(d) - 1}}
			}
		}
		out = append(out, c)
		// a document whose bytes also satisfy a signature tried before JSON (<svg ...) is not in
		// the JSON family at all: outside this property (C08 states the exception)
		kept := out[:0]
		for _, x := range out {
			if c08HigherPriority([]byte(x.Doc), 0) == "" {
				kept = append(kept, x)
			}
		}
		return kept
	}, c10Check, "each printable literal as top-level key, as value, nested under itself, and as the value of \"type\"") {
		return
	}
	if vfOnlySub("huge") && !vfReplayMode() && vfShard() < 3 {
		kind := []string{"geojson-decider-last", "har-decider-last", "gltf-decider-last"}[vfShard()]
		want := map[string][2]string{"geojson-decider-last": {"application/geo+json", ".geojson"}, "har-decider-last": {"application/json", ".har"}, "gltf-decider-last": {"model/gltf+json", ".gltf"}}[kind]
		for _, n := range []int{70000, 1300000} {
			doc := vfBig(kind, n)
			for _, L := range []uint32{0, uint32(len(doc)), uint32(len(doc) + 1), 2 << 20, 0xffffffff} {
				m := vfDetectAt(doc, L)
				var r vfResult
				r.Nontrivial, r.Labels, r.Hash = true, []string{"huge"}, vfHash([]byte(kind), vfHashU(uint64(n), uint64(L)))
				if m.String() != want[0] || m.Extension() != want[1] {
					r.Err = fmt.Errorf("%d-byte document whose deciding member is the LAST top-level member, limit %d: want %s (%s), got %s", len(doc), L, want[0], want[1], vfChainStr(m))
				}
				vfStats.record(r, func() any { return map[string]any{"sub": "huge", "kind": kind, "len": len(doc), "limit": L} })
				if r.Err != nil {
					vfEnumFail(t, "C10", "gen", c10Case{Doc: doc[:min(len(doc), 200)], Limit: L}, r.Err)
					return
				}
			}
		}
	}
	if t.Failed() || !vfOnlySub("gen") {
		return
	}
	vfRun(t, vfSub[c10Case]{Prop: "C10", Name: "gen", Checks: vfN(120000, 40000000), Gen: c10Gen, Check: c10Check})
}
