//go:build verif

package mimetype

import (
	"bytes"
	"fmt"
	"mime"
	"strings"
	"testing"
	"unicode/utf8"

	"github.com/gabriel-vasile/mimetype/internal/charset"
	"pgregory.net/rapid"
)

// C11 — sniffed charset is truthful for undeclared text.
//
// Oracle for a non-empty header h (domain: h starts with a BOM, or has no binary-data byte):
//   BOM                          => result is that mark's charset
//   otherwise, with U(h) <=> exists k in 0..3: utf8.Valid(h[:n-k]) and (k == 0 or the tail
//   h[n-k:] is a proper prefix of a valid multi-byte encoding, i.e. !utf8.FullRune(tail)):
//     result == "utf-8"        => U(h)
//     U(h) and (all bytes are ASCII text characters  or  h[:n-k] holds a byte >= 0x80) => "utf-8"
//     result == "windows-1252" => some byte in 0x80..0x9F
//     result == "iso-8859-1"   => no byte in 0x80..0x9F
//     result in {"", utf-8, iso-8859-1, windows-1252}
// The empty input has no characters; nothing is asserted about it.

type c11Case struct {
	X     vfB    `json:"x"`
	Limit uint32 `json:"limit"`
	Via   string `json:"via"` // "plain" = charset.FromPlain(x), "detect" = Detect under Limit
	// Markup: the generator wrapped the text in HTML or XML that declares NO encoding (no meta, no
	// encoding pseudo-attribute, no literal "charset"/"encoding"), so the sniffing rules apply
	Markup bool `json:"markup,omitempty"`
}

// c11ASCIIText: T-class bytes below 0x80 of the table file(1) uses: BEL BS HT LF VT FF CR ESC
// and 0x20..0x7E.
func c11ASCIIText(b byte) bool {
	switch {
	case b >= 0x20 && b <= 0x7e:
		return true
	case b >= 0x07 && b <= 0x0d:
		return true
	case b == 0x1b:
		return true
	}
	return false
}

// c11BOMNames: admissible names for a BOM-led header. FF FE 00 00 is both the UTF-32LE mark
// and the UTF-16LE mark followed by U+0000; either reading is accepted.
func c11BOMNames(h []byte) []string {
	var out []string
	for _, b := range vfBOMs {
		if len(h) >= len(b.bom) && string(h[:len(b.bom)]) == string(b.bom) {
			out = append(out, b.name)
		}
	}
	return out
}

func c11Oracle(h []byte, got string) error {
	n := len(h)
	if n == 0 {
		return nil
	}
	if names := c11BOMNames(h); len(names) > 0 {
		for _, nm := range names {
			if got == nm {
				return nil
			}
		}
		return fmt.Errorf("header %s starts with a BOM for %v but charset %q is reported", vfQ(h), names, got)
	}
	uOK, mustUTF8 := false, false
	allASCIIText := true
	hasC1 := false
	for _, b := range h {
		if !c11ASCIIText(b) {
			allASCIIText = false
		}
		if b >= 0x80 && b <= 0x9f {
			hasC1 = true
		}
	}
	for k := 0; k <= 3 && k <= n; k++ {
		head, tail := h[:n-k], h[n-k:]
		if !utf8.Valid(head) {
			continue
		}
		if k > 0 && utf8.FullRune(tail) {
			continue
		}
		uOK = true
		high := false
		for _, b := range head {
			if b >= 0x80 {
				high = true
			}
		}
		if allASCIIText || high {
			mustUTF8 = true
		}
	}
	switch got {
	case "utf-8":
		if !uOK {
			return fmt.Errorf("utf-8 reported for %s, which is not valid UTF-8 (even allowing a cut-off final sequence)", vfQ(h))
		}
	case "windows-1252":
		if !hasC1 {
			return fmt.Errorf("windows-1252 reported for %s, which has no byte in 0x80-0x9F", vfQ(h))
		}
	case "iso-8859-1":
		if hasC1 {
			return fmt.Errorf("iso-8859-1 reported for %s, which has a byte in 0x80-0x9F", vfQ(h))
		}
	case "":
	default:
		return fmt.Errorf("unexpected charset %q for BOM-less %s", got, vfQ(h))
	}
	if mustUTF8 && got != "utf-8" {
		return fmt.Errorf("%s is UTF-8 (ASCII text only, or with a complete non-ASCII character) but charset %q is reported", vfQ(h), got)
	}
	return nil
}

func c11InDomain(h []byte) bool {
	return vfBOM(h) != "" || !vfHasBin(h)
}

func c11Check(c c11Case) vfResult {
	x := []byte(c.X)
	var r vfResult
	var h []byte
	var got string
	switch c.Via {
	case "plain":
		h = x
		if !c11InDomain(h) {
			return vfResult{Skip: "binary-data-byte-without-bom"}
		}
		got = charset.FromPlain(vfExact(h))
	default:
		h = vfHeader(x, c.Limit)
		if !c11InDomain(h) {
			return vfResult{Skip: "binary-data-byte-without-bom"}
		}
		m := vfDetectAt(x, c.Limit)
		mt, params, err := mime.ParseMediaType(m.String())
		if err != nil {
			return vfFailf("result %q does not parse: %v", m.String(), err)
		}
		undeclared := (mt == "text/html" || mt == "text/xml") && c.Markup
		if mt != "text/plain" && !undeclared {
			r.Labels = append(r.Labels, "detect-not-plain-text")
			r.Hash = vfHash(x, vfHashU(uint64(c.Limit)), []byte(c.Via))
			return r
		}
		if undeclared {
			r.Labels = append(r.Labels, "markup-without-declared-encoding")
		}
		got = params["charset"]
	}
	r.Labels = append(r.Labels, "via-"+c.Via, "charset="+got)
	for _, b := range h {
		if b >= 0x80 {
			r.Nontrivial = true
			break
		}
	}
	r.Hash = vfHash(x, vfHashU(uint64(c.Limit)), []byte(c.Via))
	r.Err = c11Oracle(h, got)
	if r.Err == nil && c.Via == "detect" && (r.Hash%3 == 0 || len(x) > 3000) {
		if err := vfRoutes(x, c.Limit, vfDetectAt(x, c.Limit)); err != nil {
			r.Err = fmt.Errorf("%v; x=%s", err, vfQ(x))
		}
	}
	return r
}

var c11Alphabet = []byte{'a', ' ', '\n', 0x7f, 0x1b, 0xc0, 0xc3, 0xe0, 0xe2, 0xed, 0xf0, 0xf4, 0xf5, 0x80, 0x85, 0x9f, 0xa0, 0xa9, 0xbf, 0xff, 0xfe, 0xef, 0xbb, 0x00, 0xbd}

func c11Enumerate(t *testing.T, maxLen int) {
	sh, nsh := vfShard(), vfNShards()
	na := len(c11Alphabet)
	buf := make([]byte, maxLen)
	var evals, nontriv, skipped int64
	for n := 1; n <= maxLen; n++ {
		total := 1
		for i := 0; i < n; i++ {
			total *= na
		}
		for idx := sh; idx < total; idx += nsh {
			x := idx
			high := false
			for i := n - 1; i >= 0; i-- {
				buf[i] = c11Alphabet[x%na]
				if buf[i] >= 0x80 {
					high = true
				}
				x /= na
			}
			h := buf[:n]
			if !c11InDomain(h) {
				skipped++
				continue
			}
			evals++
			if high {
				nontriv++
			}
			got := charset.FromPlain(h)
			if err := c11Oracle(h, got); err != nil {
				vfEnumFail(t, "C11", "enum", c11Case{X: append(vfB(nil), h...), Via: "plain"}, err)
				return
			}
			vfStats.labelFast("enum-charset=" + got)
			// Detect level for all short strings and a sample of the longer ones
			if n <= 3 || idx%61 == 0 {
				c := c11Case{X: append(vfB(nil), h...), Limit: uint32(n), Via: "detect"}
				if idx%2 == 0 {
					c.Limit = 0
				}
				r := c11Check(c)
				evals++
				if r.Err != nil {
					vfEnumFail(t, "C11", "enum", c, r.Err)
					return
				}
				if high && idx%100003 == 0 {
					vfStats.addSample(map[string]any{"sub": "enum", "case": c, "charset": got})
				}
			}
		}
	}
	vfStats.recordBulk(evals, nontriv)
	vfStats.mu.Lock()
	vfStats.Excluded["binary-data-byte-without-bom"] += skipped
	vfStats.mu.Unlock()
	vfStats.flushFast()
	vfStats.Exhaustive = true
	vfStats.Subchecks["enum"] = fmt.Sprintf("all strings over the %d-byte class alphabet % x up to length %d through charset.FromPlain (Detect level for length<=3 and every 61st longer string); shard takes every %d-th index", na, c11Alphabet, maxLen, nsh)
}

var c11Texts = []string{
	"Καλημέρα κόσμε, τι κάνεις;\n",
	"日本語のテキストです。\n二行目。",
	"emoji 😀 and 𝄞 clef, café, naïve, Ærøskøbing",
	"Zürich — “quoted” … €uro",
	"plain ascii only\twith tab\r\nand crlf\x0c",
	"caf\xe9 cr\xe8me br\xfbl\xe9e (latin-1)",
	"Wait\x85 \x93smart\x94 quotes \x96 cp1252 \x80",
	"mixed \xc3\xa9 then bad \xe9 byte",
	"\xe2\x82\xac\xe2\x82\xac\xe2\x82",
	"\xf0\x9f\x98\x80\xf0\x9f\x98",
	"ends with lead \xc3",
	"\xed\xa0\x80 surrogate",
	"\xc0\xaf overlong",
	"\xf4\x90\x80\x80 too large",
	// boundary code points of every encoded length, non-characters and the replacement character
	"U+0080 \u0080 U+07FF \u07ff U+0800 \u0800 U+D7FF \ud7ff U+E000 \ue000 U+FFFD \ufffd U+FFFE \ufffe U+FFFF \uffff U+10000 \U00010000 U+10FFFF \U0010ffff end",
	"replacement \ufffd character and object replacement \ufffc; private use \uf8ff",
	"\ufffd",
	"x\ufffd\xe2\x82",
}

func c11Gen(t *rapid.T) c11Case {
	if rapid.IntRange(0, 15).Draw(t, "long") == 0 {
		// long text, limit above the default, a deciding byte planted around the limit
		unit := rapid.SampledFrom([]string{"plain ascii text ", "caf\u00e9 cr\u00e8me ", "caf\xe9 latin ", "\u65e5\u672c\u8a9e "}).Draw(t, "unit")
		n := rapid.IntRange(3100, 8000).Draw(t, "n")
		var lx []byte
		for len(lx) < n {
			lx = append(lx, unit...)
		}
		L := rapid.IntRange(3073, len(lx)).Draw(t, "L")
		p := L + rapid.IntRange(-3, 3000).Draw(t, "off")
		if p >= 0 && p < len(lx) {
			lx[p] = rapid.SampledFrom([]byte{0xe9, 0x85, 0xff, 0xc3, 0x93}).Draw(t, "planted")
		}
		return c11Case{X: lx, Limit: uint32(L), Via: "detect"}
	}
	var x []byte
	switch rapid.IntRange(0, 4).Draw(t, "k") {
	case 4: // text that opens with a literal of the code under test (signatures, labels, keywords)
		x = []byte(rapid.SampledFrom(vfDictText()).Draw(t, "dicttok"))
		x = append(x, rapid.SampledFrom([]string{"", " ", "\n", " caf\u00e9", " caf\xe9", "-", "AAAA", "\x93quoted\x94"}).Draw(t, "dicttail")...)
	case 0: // real text, 0-2 bytes replaced
		x = []byte(rapid.SampledFrom(c11Texts).Draw(t, "text"))
		for i, n := 0, rapid.IntRange(0, 2).Draw(t, "nrep"); i < n; i++ {
			x[rapid.IntRange(0, len(x)-1).Draw(t, "p")] = rapid.SampledFrom([]byte{0x80, 0x85, 0x9f, 0xa0, 0xe9, 0xff, 0xc3, 0xe2, 'a', 0x7f, 0x1b, 0xf0, 0xbf}).Draw(t, "v")
		}
	case 1: // pieces
		n := rapid.IntRange(1, 8).Draw(t, "n")
		for i := 0; i < n; i++ {
			x = append(x, rapid.SampledFrom([]string{"a", "text ", "\n", "\xc3\xa9", "\xe2\x82\xac", "\xf0\x9f\x98\x80", "\xe9", "\x85", "\x93", "\xa0", "\xff", "\xc3", "\xe2\x82", "\xf0\x9f\x98", "\x1b", "\x7f", "\x1b$B", "\x1b(B", "\x1b$@", "\x1b(J", "\x1b$)C", "\x1b[0m", "~{", "~}", "\x0e", "\x0f", "\xed\xa0\x80", "\xc0\x80", "\xed\xb0\x80", "\xed\xaf\xbf", "\xed\xbf\xbf", "\xed\xa0\x80\xed\xb0\x80", "\xed\xa1\x8c\xed\xbe\xb4", "\xe0\x80\xaf", "\xf0\x80\x80\xaf", "\xf4\x90\x80\x80", "\xf8\x88\x80\x80\x80", "\xc1\xbf", "\xed\x9f\xbf", "\xef\xbb\xbf", "\xff\xfe", "\xfe\xff",
				"\ufffd", "\ufffe", "\uffff", "\u0080", "\u07ff", "\u0800", "\ud7ff", "\ue000", "\U00010000", "\U0010ffff", "\xf4\x8f\xbf", "\xef\xbf"}).Draw(t, "pc")...)
		}
	case 2: // byte-class string, longer than the exhaustive scope
		x = rapid.SliceOfN(rapid.SampledFrom(append(append([]byte(nil), c11Alphabet[:23]...), 0xbd)), 6, 14).Draw(t, "cls")
	default: // latin text with high bytes
		n := rapid.IntRange(1, 20).Draw(t, "n")
		for i := 0; i < n; i++ {
			if rapid.IntRange(0, 3).Draw(t, "hi") == 0 {
				x = append(x, byte(rapid.IntRange(0x80, 0xff).Draw(t, "hb")))
			} else {
				x = append(x, byte(rapid.IntRange(0x20, 0x7e).Draw(t, "lb")))
			}
		}
	}
	if rapid.IntRange(0, 5).Draw(t, "markup") == 0 && !bytes.Contains(x, []byte("charset")) && !bytes.Contains(x, []byte("encoding")) && !bytes.Contains(x, []byte("<")) {
		bom := rapid.SampledFrom([]string{"", "", "\xef\xbb\xbf"}).Draw(t, "mbom")
		pre := rapid.SampledFrom([]string{"<html><head><meta http-equiv=\"content-type\" content=\"text/html\"><meta name=\"description\" content=\"a page about charset=koi8-r and more\"></head><body>",
			"<html><head><meta http-equiv=\"Content-Type\" content=\"text/html\"><meta name=\"keywords\" content=\"charset=utf-8\"><title>t</title>", "<?xml version=\"1.0\"?><a>", "<?xml version='1.0' standalone='yes'?>\n<doc>", "<html><body>", "<!DOCTYPE html><p>", " <html ><title>t</title>"}).Draw(t, "mpre")
		mx := append([]byte(bom+pre), x...)
		if strings.HasPrefix(pre, "<?xml") && !bytes.Contains(x, []byte("--")) && !bytes.Contains(x, []byte("?>")) && !bytes.Contains(x, []byte(">")) && rapid.IntRange(0, 2).Draw(t, "incomment") == 0 {
			// the text sits inside a comment, a processing instruction or the DOCTYPE of a complete document
			w := rapid.SampledFrom([][2]string{{"<!-- ", " --><r/>"}, {"<?note ", " ?><r/>"}, {"<!DOCTYPE r [ <!-- ", " --> ]><r/>"}}).Draw(t, "wrap")
			mx = append(append(append([]byte(bom+"<?xml version=\"1.0\"?>"), w[0]...), x...), w[1]...)
		}
		return c11Case{X: mx, Via: "detect", Limit: vfGenLimit(t, len(mx)), Markup: true}
	}
	c := c11Case{X: x, Via: rapid.SampledFrom([]string{"plain", "detect", "detect"}).Draw(t, "via")}
	if c.Via == "detect" {
		c.Limit = vfGenLimit(t, len(x))
	}
	return c
}

func TestVerif_C11(t *testing.T) {
	defer vfStats.dump()
	vfStats.Property = "C11"
	if !vfDictSweep(t, "C11", "gen", vfDictText(), func(tok string) []c11Case {
		return []c11Case{{X: vfB(tok), Via: "detect"}, {X: vfB(tok + " plain ascii text"), Via: "detect"}, {X: vfB(tok + " caf\xc3\xa9"), Via: "detect"}, {X: vfB(tok + " caf\xe9"), Via: "detect"}, {X: vfB(tok + " \x93q\x94"), Via: "plain"}}
	}, c11Check, "text opening with each printable literal: alone, + ASCII, + UTF-8, + Latin-1, + windows-1252") {
		return
	}
	if vfOnlySub("enum") {
		vfRun(t, vfSub[c11Case]{Prop: "C11", Name: "enum", Check: c11Check})
		if !vfReplayMode() && !t.Failed() {
			if vfThorough() {
				c11Enumerate(t, 6)
			} else {
				c11Enumerate(t, 5)
			}
		}
	}
	if t.Failed() {
		return
	}
	if vfOnlySub("cuts") {
		vfRun(t, vfSub[c11Case]{Prop: "C11", Name: "cuts", Check: c11Check})
		if !vfReplayMode() && vfShard() == 0 {
			// every real text cut at every limit, through Detect and through FromPlain
			for _, txt := range c11Texts {
				for L := 1; L <= len(txt)+1; L++ {
					for _, via := range []string{"detect", "plain"} {
						c := c11Case{X: vfB(txt), Limit: uint32(L), Via: via}
						if via == "plain" {
							if L > len(txt) {
								continue
							}
							c = c11Case{X: vfB(txt[:L]), Via: via}
						}
						r := c11Check(c)
						r.Labels = append(r.Labels, "cuts")
						vfStats.record(r, func() any { return map[string]any{"sub": "cuts", "case": c} })
						if r.Err != nil {
							vfEnumFail(t, "C11", "cuts", c, r.Err)
							return
						}
					}
				}
			}
		}
	}
	if t.Failed() {
		return
	}
	if vfOnlySub("huge") && !vfReplayMode() && vfShard() < 2 {
		kind := []string{"text-latin-tail", "text-utf8-then-bad"}[vfShard()]
		for _, n := range []int{70000, 1200000} {
			x := vfBig(kind, n)
			for _, L := range []uint32{0, uint32(len(x)), uint32(len(x) + 1), 2 << 20} {
				c := c11Case{X: x, Limit: L, Via: "detect"}
				r := c11Check(c)
				r.Labels = append(r.Labels, "huge")
				vfStats.record(r, func() any { return map[string]any{"sub": "huge", "kind": kind, "len": len(x), "limit": L} })
				if r.Err != nil {
					vfEnumFail(t, "C11", "gen", c11Case{X: x[len(x)-200:], Limit: 0, Via: "detect"}, fmt.Errorf("%d-byte text whose deciding bytes are at the very end: %v", len(x), r.Err))
					return
				}
			}
		}
	}
	if t.Failed() {
		return
	}
	if vfOnlySub("gen") {
		vfRun(t, vfSub[c11Case]{Prop: "C11", Name: "gen", Checks: vfN(100000, 40000000), Gen: c11Gen, Check: c11Check})
	}
}
