//go:build verif

package mimetype

import (
	"fmt"
	"mime"
	"strings"
	"testing"

	"github.com/gabriel-vasile/mimetype/internal/charset"
	"pgregory.net/rapid"
)

// C12 — declared charsets are honoured.
//
// Construction oracle: the generator writes HTML with exactly one declaring <meta> (direct or
// http-equiv pragma) or an XML 1.0 declaration with an encoding pseudo-attribute, and knows
// the declared label. Expected: text/html (text/xml) with charset == ASCII-lowercase(label);
// utf-16* in an HTML meta -> utf-8; a UTF-8 BOM before HTML -> utf-8.

type c12Case struct {
	Kind  string   `json:"kind"` // html | xml
	Doc   vfB      `json:"doc"`
	Limit uint32   `json:"limit"`
	Label string   `json:"label"`
	Want  string   `json:"want"`
	Flags []string `json:"flags"`
	// ViaExt: a user-registered format with the SAME media type (text/html or text/xml) under
	// text/plain, accepting everything, takes the document before the built-in format does. The
	// document is still HTML/XML with a declared encoding, so the same charset must be reported.
	ViaExt bool `json:"via_extension,omitempty"`
}

var c12Known = []string{"utf-8", "UTF-8", "ISO-8859-1", "iso-8859-1", "windows-1252", "Windows-1251", "Shift_JIS", "EUC-KR", "gb2312", "GBK",
	"KOI8-R", "utf-16", "UTF-16LE", "utf-16be", "us-ascii", "iso-8859-15", "Big5", "x-mac-cyrillic", "IBM866", "latin1", "macintosh",
	// labels that contain the words the scanner itself looks for
	"x-mac-charset-ce", "charsetx", "mycharset", "x-charset", "encoding-x", "x-meta", "content-1", "http-equiv"}

const c12TokenChars = "abcdefghijklmnopqrstuvwxyzABCDEFGHIJKLMNOPQRSTUVWXYZ0123456789!#$%*+-.^_|~{}"

func c12GenLabel(t *rapid.T) string {
	if rapid.Bool().Draw(t, "known") {
		return rapid.SampledFrom(c12Known).Draw(t, "label")
	}
	n := rapid.IntRange(1, 12).Draw(t, "ln")
	var sb strings.Builder
	for i := 0; i < n; i++ {
		sb.WriteByte(c12TokenChars[rapid.IntRange(0, len(c12TokenChars)-1).Draw(t, "lc")])
	}
	l := sb.String()
	if strings.HasPrefix(strings.ToLower(l), "utf-16") {
		l = "x" + l
	}
	return l
}

func c12RandCase(t *rapid.T, s string) string {
	b := []byte(s)
	for i := range b {
		if b[i] >= 'a' && b[i] <= 'z' && rapid.IntRange(0, 2).Draw(t, "uc") == 0 {
			b[i] -= 0x20
		}
	}
	return string(b)
}

func c12Quote(t *rapid.T, v string, allowBare bool) (string, bool) {
	k := rapid.IntRange(0, 2).Draw(t, "q")
	if k == 2 && !allowBare {
		k = 0
	}
	switch k {
	case 0:
		return `"` + v + `"`, false
	case 1:
		return `'` + v + `'`, false
	}
	return v, true
}

func c12Eq(t *rapid.T) string {
	return rapid.SampledFrom([]string{"=", "=", "=", " = ", " =", "= ", "\t=\n"}).Draw(t, "eq")
}

var c12Starts = []string{"<!DOCTYPE html>", "<!doctype html>", "<!DOCTYPE HTML PUBLIC \"-//W3C//DTD HTML 4.01//EN\">", "<html>", "<HTML >", "<html lang=\"en\">", "<head>", "<!DOCTYPE html>\n<html>\n<head>", "<html><head>",
	"<title>t</title>", "<body>", "<div >", "<p>", "<table><tr><td>x</td></tr></table>", "<!DOCTYPE HTML>", "<HtMl>", "<HEAD >", "<style>b{}</style>", "<script>var a;</script>", "<h1>x</h1>", "<br>", "<a href=\"x\">y</a>", "<b>", "<font >", "<iframe src=x></iframe>"}

var c12HTMLPrologue = []string{
	"<!-- a comment -->", "<!-- <meta charset=\"fake-in-comment\"> -->", "<!---->",
	"<script>var s = \"<meta charset='fake-in-script'>\";</script>", "<script type=\"text/javascript\">if (a < b) { x = '<meta http-equiv=content-type content=\"text/html; charset=fake2\">'; }</script>",
	"<style>/* <meta charset=fake-in-style> */ body{}</style>", "<title>Title <meta charset=fake-in-title></title>", "<title>plain</title>",
	"<meta name=\"viewport\" content=\"width=device-width, initial-scale=1\">", "<meta name=\"description\" content=\"about charset=decoy-desc here\">",
	"<meta content=\"text/html; charset=decoy-no-http-equiv\">", "<meta http-equiv=\"refresh\" content=\"5; url=x\">", "<meta http-equiv=\"X-UA-Compatible\" content=\"IE=edge; charset=decoy-ua\">",
	"<link rel=\"stylesheet\" href=\"a.css\" charset=\"decoy-link\">",
	"<meta name=\"description\" content=\"A short guide to charset detection\">", "<meta name=\"keywords\" content=\"charset\">", "<meta content=\"charset charset =\">", "<meta name=\"x\" content=\"the charset; charset\">",
	"<meta http-equiv=\"Content-Type\" content=\"text/html\"><meta name=\"description\" content=\"mentions charset=decoy-after-pragma\">",
	"<script src=\"a.js\"/>var s = \"<meta charset='fake-in-selfclosed-script'>\";</script>", "<title/>Title <meta charset=fake-in-selfclosed-title></title>", "<style/>/* <meta charset=fake-in-selfclosed-style> */</style>", "<textarea/><meta charset=fake-in-textarea></textarea>",
	// CDATA sections are not an HTML construct: "<![CDATA[" opens a bogus comment that ends at the first ">"
	"<![CDATA[ x ]]>", "<![CDATA[>", "<![CDATA[ a > b", "<![cdata[x]]>", "<!x>", "<?pi ?>", "<!>",
	// structure tags before the declaration: a meta is honoured wherever the scan meets it
	"</head>", "<head></head>", "</HEAD >", "<body>", "</head><body><p>text</p>", "<head><title>t</title></head><body class=\"x\">", "</html>", "</title>", "<p>para</p><div><span>deep</span></div>", "<noscript></noscript>", "<template></template>",
	"<meta http-equiv=\"Content-Language\" content=\"en\">", "<meta http-equiv=\"X-UA-Compatible\" content=\"IE=edge\">", "<meta name=\"viewport\" content=\"width=device-width\"><meta name=\"generator\" content=\"x\">", "<meta name=\"charset\" content=\"decoy-name\">", "<meta property=\"og:title\" content=\"t\">", "\n", "  ", "<base href=\"/\">",
}

func c12GenHTML(t *rapid.T) c12Case {
	c := c12Case{Kind: "html"}
	flags := map[string]bool{}
	label := c12GenLabel(t)
	c.Label = label
	var sb strings.Builder
	bom := rapid.IntRange(0, 7).Draw(t, "bom") == 0
	if bom {
		sb.WriteString("\xef\xbb\xbf")
		flags["bom"] = true
	}
	sb.WriteString(rapid.SampledFrom([]string{"", "", "", "\n", "  ", "\r\n\t", "\x0c", " \x0c\n"}).Draw(t, "lead"))
	sb.WriteString(rapid.SampledFrom(c12Starts).Draw(t, "start"))
	for i, n := 0, rapid.IntRange(0, 4).Draw(t, "npro"); i < n; i++ {
		p := rapid.SampledFrom(c12HTMLPrologue).Draw(t, "pro")
		if rapid.IntRange(0, 11).Draw(t, "long") == 0 {
			// one long token (several KiB): comment, script body, white-space run, long attribute
			n := rapid.SampledFrom([]int{1500, 3000, 4090, 4100, 5000, 9000, 20000}).Draw(t, "longlen")
			switch rapid.IntRange(0, 3).Draw(t, "longkind") {
			case 0:
				p = "<!-- " + strings.Repeat("long comment ", n/13) + "-->"
			case 1:
				p = "<script>/* " + strings.Repeat("x = 1; ", n/7) + "*/</script>"
			case 2:
				p = strings.Repeat(" \n", n/2)
			default:
				p = "<link rel=\"icon\" href=\"data:," + strings.Repeat("A", n) + "\">"
			}
			flags["long-prologue-token"] = true
		}
		if strings.Contains(p, "fake") || strings.Contains(p, "decoy") {
			flags["decoy-before"] = true
		}
		sb.WriteString(p)
	}
	// the one declaring meta
	tag := c12RandCase(t, "meta")
	var attrs []string
	extra := func() {
		if rapid.IntRange(0, 3).Draw(t, "extra") == 0 {
			attrs = append(attrs, rapid.SampledFrom([]string{`id="m"`, `data-x=1`, `name="x"`, `lang=en`, `class='c d'`}).Draw(t, "xa"))
		}
	}
	bare := false
	if rapid.Bool().Draw(t, "direct") {
		flags["direct"] = true
		extra()
		v, b := c12Quote(t, label, true)
		bare = b
		attrs = append(attrs, c12RandCase(t, "charset")+c12Eq(t)+v)
		if !bare {
			extra()
		}
	} else {
		flags["pragma"] = true
		he, _ := c12Quote(t, c12RandCase(t, "content-type"), true)
		heAttr := c12RandCase(t, "http-equiv") + c12Eq(t) + he
		// content value: media type; charset=label, with spacing / inner quoting variants
		q := rapid.SampledFrom([]string{`"`, `'`}).Draw(t, "cq")
		inner := label
		switch rapid.IntRange(0, 3).Draw(t, "iq") {
		case 0:
			if q == `"` {
				inner = `'` + label + `'`
			} else {
				inner = `"` + label + `"`
			}
		}
		sep := rapid.SampledFrom([]string{"; ", ";", " ; ", ";\n"}).Draw(t, "sep")
		ceq := rapid.SampledFrom([]string{"=", " = ", "= ", " ="}).Draw(t, "ceq")
		tail := rapid.SampledFrom([]string{"", "", ";", " ; x=y"}).Draw(t, "ctail")
		if strings.HasPrefix(inner, label) && tail != "" && !strings.HasPrefix(tail, ";") && !strings.HasPrefix(tail, " ") {
			tail = ""
		}
		content := c12RandCase(t, "text/html") + sep + c12RandCase(t, "charset") + ceq + inner + tail
		cAttr := c12RandCase(t, "content") + c12Eq(t) + q + content + q
		extra()
		if rapid.Bool().Draw(t, "order") {
			attrs = append(attrs, heAttr, cAttr)
		} else {
			attrs = append(attrs, cAttr, heAttr)
			bare = !strings.HasSuffix(heAttr, `"`) && !strings.HasSuffix(heAttr, `'`)
		}
		if !bare {
			extra()
		}
	}
	end := rapid.SampledFrom([]string{">", " >", " />", "\n>"}).Draw(t, "end")
	sb.WriteString("<" + tag + " " + strings.Join(attrs, rapid.SampledFrom([]string{" ", "  ", "\n"}).Draw(t, "asep")) + end)
	declEnd := sb.Len()
	sb.WriteString(rapid.SampledFrom([]string{"", "</head><body>text</body></html>", "<body>caf\xe9 \x93x\x94</body>", "<title>t</title></head>", "\n<p>\xc3\xa9</p>", "<body>" + strings.Repeat("lorem ipsum ", 30)}).Draw(t, "tail"))
	c.Doc = vfB(sb.String())
	low := strings.ToLower(label)
	switch {
	case bom:
		c.Want = "utf-8"
	case strings.HasPrefix(low, "utf-16"):
		c.Want = "utf-8"
		flags["utf-16"] = true
	default:
		c.Want = low
	}
	if low != "utf-8" {
		flags["label-not-utf8"] = true
	}
	for f := range flags {
		c.Flags = append(c.Flags, f)
	}
	sortStrings(c.Flags)
	c.Limit = c12GenLimit(t, declEnd, len(c.Doc))
	c.ViaExt = rapid.IntRange(0, 11).Draw(t, "viaext") == 0
	return c
}

func c12GenLimit(t *rapid.T, declEnd, n int) uint32 {
	switch rapid.IntRange(0, 4).Draw(t, "lk") {
	case 0, 1:
		return 0
	case 2:
		return uint32(declEnd)
	case 3:
		return uint32(n)
	}
	return uint32(rapid.IntRange(declEnd, n+2).Draw(t, "lim"))
}

func c12GenXML(t *rapid.T) c12Case {
	c := c12Case{Kind: "xml"}
	flags := map[string]bool{}
	label := c12GenLabel(t)
	c.Label = label
	var sb strings.Builder
	sb.WriteString(rapid.SampledFrom([]string{"", "", "", "\n", "  ", "\r\n\t"}).Draw(t, "lead"))
	sb.WriteString("<?xml")
	q := func(v string) string {
		if rapid.Bool().Draw(t, "dq") {
			return `"` + v + `"`
		}
		return `'` + v + `'`
	}
	eq := func() string {
		e := rapid.SampledFrom([]string{"=", "=", "=", " = ", " =", "= ", "\t=\n"}).Draw(t, "eq")
		if e != "=" {
			flags["space-around-eq"] = true
		}
		return e
	}
	// white space inside the declaration may be of any length (1 declaration in 8 has a run of
	// 150-2500 characters somewhere: the declaration itself is then longer than 512 / 1024 bytes)
	longAt := -1
	if rapid.IntRange(0, 7).Draw(t, "longws") == 0 {
		longAt = rapid.IntRange(0, 3).Draw(t, "longwsat")
		flags["long-declaration"] = true
	}
	sp := func(i int, opts []string, label string) string {
		v := rapid.SampledFrom(opts).Draw(t, label)
		if i == longAt {
			v += strings.Repeat(rapid.SampledFrom([]string{" ", "\n", " \t", "\r\n "}).Draw(t, "wsunit"), rapid.SampledFrom([]int{150, 300, 520, 1100, 2500}).Draw(t, "wsn"))
		}
		return v
	}
	sb.WriteString(sp(0, []string{" ", "  ", " \n"}, "s1") + "version" + eq() + q("1.0"))
	sb.WriteString(sp(1, []string{" ", "  ", "\n"}, "s2") + "encoding" + eq() + q(label))
	if rapid.Bool().Draw(t, "sa") {
		sb.WriteString(sp(2, []string{" "}, "s2b") + "standalone" + eq() + q(rapid.SampledFrom([]string{"yes", "no"}).Draw(t, "sav")))
	}
	sb.WriteString(sp(3, []string{"", " ", "\n"}, "s3") + "?>")
	declEnd := sb.Len()
	tail := rapid.SampledFrom([]string{"", "<root/>", "\n<root>text</root>", "<!-- encoding=\"decoy\" --><a b='encoding=\"decoy2\"'/>", "<doc>caf\xe9 \x93x\x94</doc>", "\n<note>" + strings.Repeat("lorem ", 40) + "</note>", "<?pi encoding='decoy3'?><r/>"}).Draw(t, "tail")
	if strings.Contains(tail, "decoy") {
		flags["decoy-after"] = true
	}
	sb.WriteString(tail)
	c.Doc = vfB(sb.String())
	c.Want = strings.ToLower(label)
	if c.Want != "utf-8" {
		flags["label-not-utf8"] = true
	}
	for f := range flags {
		c.Flags = append(c.Flags, f)
	}
	sortStrings(c.Flags)
	c.Limit = c12GenLimit(t, declEnd, len(c.Doc))
	c.ViaExt = rapid.IntRange(0, 11).Draw(t, "viaext") == 0
	return c
}

func c12Check(c c12Case) vfResult {
	doc := []byte(c.Doc)
	var r vfResult
	r.Labels = append(r.Labels, c.Kind)
	r.Labels = append(r.Labels, c.Flags...)
	for _, f := range c.Flags {
		if f == "label-not-utf8" || f == "decoy-before" || f == "bom" || f == "decoy-after" || f == "space-around-eq" || f == "long-prologue-token" || f == "long-declaration" {
			r.Nontrivial = true
		}
	}
	r.Hash = vfHash(doc, vfHashU(uint64(c.Limit)))
	wantType := "text/html"
	if c.Kind == "xml" {
		wantType = "text/xml"
	}
	if c.ViaExt {
		vfTreeSnapshot()
		vfTreeRestore()
		defer vfTreeRestore()
		if p := Lookup("text/plain"); p != nil {
			p.Extend(func([]byte, uint32) bool { return true }, wantType, ".x")
		}
		r.Labels = append(r.Labels, "via-extension-with-same-type")
	}
	m := vfDetectAt(doc, c.Limit)
	mt, params, err := mime.ParseMediaType(m.String())
	if err != nil {
		r.Err = fmt.Errorf("result %q does not parse: %v", m.String(), err)
		return r
	}
	if mt != wantType {
		r.Err = fmt.Errorf("limit %d: want %s, got %s for %s", c.Limit, wantType, vfChainStr(m), vfQ(doc))
		return r
	}
	if params["charset"] != c.Want {
		r.Err = fmt.Errorf("limit %d: declared label %q, want charset=%q, got %q (%s) for %s", c.Limit, c.Label, c.Want, params["charset"], m.String(), vfQ(doc))
		return r
	}
	// the sniffers called directly on the examined header must agree
	h := vfExact(vfHeader(doc, c.Limit))
	var direct string
	if c.Kind == "xml" {
		direct = charset.FromXML(h)
	} else {
		direct = charset.FromHTML(h)
	}
	if direct != c.Want {
		r.Err = fmt.Errorf("charset.From%s returns %q, want %q for %s", strings.ToUpper(c.Kind), direct, c.Want, vfQ(h))
	} else if c.ViaExt {
		// (the direct sniffer calls and route equivalence are checked on the built-in tree)
	} else if err := vfRoutes(doc, c.Limit, m); err != nil {
		r.Err = fmt.Errorf("limit %d: %v; doc %s", c.Limit, err, vfQ(doc))
	}
	return r
}

func TestVerif_C12(t *testing.T) {
	defer vfStats.dump()
	if vfOnlySub("huge") && !vfReplayMode() && vfShard() < 2 {
		for _, filler := range []string{strings.Repeat("<!-- c -->\n", 9000*(1+10*vfShard())), "<!-- " + strings.Repeat("x", 80000*(1+12*vfShard())) + " -->", strings.Repeat("<link rel=\"a\" href=\"b\">", 4000*(1+10*vfShard()))} {
			doc := "<!DOCTYPE html><html><head>" + filler + "<meta charset=\"Windows-1251\"><title>t</title></head>"
			xdoc := "<?xml version=\"1.0\" encoding=\"KOI8-R\"?>" + filler + "<r/>"
			for _, c := range []c12Case{
				{Kind: "html", Doc: vfB(doc), Limit: 0, Label: "Windows-1251", Want: "windows-1251", Flags: []string{"label-not-utf8", "long-prologue-token"}},
				{Kind: "html", Doc: vfB(doc), Limit: uint32(len(doc)), Label: "Windows-1251", Want: "windows-1251", Flags: []string{"label-not-utf8", "long-prologue-token"}},
				{Kind: "xml", Doc: vfB(xdoc), Limit: 0, Label: "KOI8-R", Want: "koi8-r", Flags: []string{"label-not-utf8"}},
			} {
				r := c12Check(c)
				r.Labels = append(r.Labels, "huge")
				vfStats.record(r, func() any { return map[string]any{"sub": "huge", "kind": c.Kind, "len": len(c.Doc), "limit": c.Limit} })
				if r.Err != nil {
					vfEnumFail(t, "C12", c.Kind, c12Case{Kind: c.Kind, Doc: c.Doc[:200], Label: c.Label, Want: c.Want}, fmt.Errorf("%d-byte document: %v", len(c.Doc), r.Err))
					return
				}
			}
		}
	}
	if t.Failed() {
		return
	}
	if vfOnlySub("html") {
		vfRun(t, vfSub[c12Case]{Prop: "C12", Name: "html", Checks: vfN(60000, 12000000), Gen: c12GenHTML, Check: c12Check})
	}
	if t.Failed() {
		return
	}
	if vfOnlySub("xml") {
		vfRun(t, vfSub[c12Case]{Prop: "C12", Name: "xml", Checks: vfN(60000, 12000000), Gen: c12GenXML, Check: c12Check})
	}
}
