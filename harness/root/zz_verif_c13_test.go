//go:build verif

package mimetype

import (
	"bytes"
	ejson "encoding/json"
	"fmt"
	"strings"
	"testing"

	"github.com/gabriel-vasile/mimetype/internal/magic"
	"pgregory.net/rapid"
)

// C13 — line-oriented formats survive truncation and require well-formed lines.

// vfOutranks: the formats that are documented (tree.go at the pinned commit, and the properties'
// anchors) to be tried before a given format. The list is FIXED here on purpose: reading the
// priority from the tree under test would excuse a change that silently re-orders siblings.
var vfRootBeforeTar = []string{"image/x-xpixmap", "application/x-7z-compressed", "application/zip", "application/pdf", "application/vnd.fdf", "application/x-ole-storage",
	"application/postscript", "image/vnd.adobe.photoshop", "application/pkcs7-signature", "application/ogg", "image/png", "image/jpeg", "image/jxl", "image/jp2", "image/jpx",
	"image/jpm", "image/jxs", "image/gif", "image/webp", "application/vnd.microsoft.portable-executable", "application/x-elf", "application/x-archive"}
var vfTextBeforeJSON = []string{"text/html", "image/svg+xml", "text/xml", "text/x-php", "text/javascript", "text/x-lua", "text/x-perl", "text/x-python"}

func vfOutranks(target string) map[string]bool {
	out := map[string]bool{}
	add := func(l []string) {
		for _, m := range l {
			out[m] = true
		}
	}
	switch target {
	case "application/x-tar":
		add(vfRootBeforeTar)
		return out
	case "application/json":
		add(vfTextBeforeJSON)
	case "application/x-ndjson":
		add(vfTextBeforeJSON)
		add([]string{"application/json"})
	case "text/csv":
		add(vfTextBeforeJSON)
		add([]string{"application/json", "application/x-ndjson", "text/rtf", "application/x-subrip", "text/x-tcl"})
	case "text/tab-separated-values":
		add(vfTextBeforeJSON)
		add([]string{"application/json", "application/x-ndjson", "text/rtf", "application/x-subrip", "text/x-tcl", "text/csv"})
	}
	// every binary format at the root outranks text/plain and everything below it
	for _, c := range root.children {
		if c != text && c.mime != "text/plain" {
			out[c.mime] = true
		}
	}
	return out
}

// vfEarlierSibling reports a node that is tried before the given path (root child first),
// accepts the header AND is documented to outrank the target: the "higher-priority signature"
// exception. A node that merely happens to sit earlier in the live tree does not count.
func vfEarlierSibling(path []*MIME, h []byte, limit uint32) string {
	return vfEarlierSiblingOpt(path, h, limit, true)
}

// rootOK=false: the caller's generator never plants a binary signature, so a root-level format
// that accepts the header is not an excuse.
func vfEarlierSiblingOpt(path []*MIME, h []byte, limit uint32, rootOK bool) string {
	allowed := vfOutranks(path[len(path)-1].mime)
	parent := root
	for _, want := range path {
		if parent == root && !rootOK && want == text {
			parent = want
			continue
		}
		for _, c := range parent.children {
			if c == want {
				break
			}
			if allowed[c.mime] && c.detector(h, limit) {
				return c.mime
			}
		}
		parent = want
	}
	return ""
}

type c13Fwd struct {
	Kind    string  `json:"kind"` // csv | tsv | ndjson
	Doc     vfB     `json:"doc"`
	Second  int     `json:"second_line_end"` // offset just after the terminator of the 2nd record line; -1 if it has none
	Limit   *uint32 `json:"limit,omitempty"`
	Comment bool    `json:"has_comment"`
}

var c13Words = []string{"id", "name", "alpha", "42", "3.14", "x", "hello world", "a-b", "2024-01-02", "n/a", "é", "Zz", "0", "foo.bar", "v;w", "k=v", "%"}

func c13Field(t *rapid.T, sep byte, tsv bool) string {
	switch rapid.IntRange(0, 9).Draw(t, "fk") {
	case 0:
		return ""
	case 8: // blanks, then a quote that is part of the text (not a quoted field: it does not open the field)
		leads := []string{" ", "  ", "\t "}
		if tsv {
			leads = []string{" ", "  ", "   "}
		}
		return rapid.SampledFrom(leads).Draw(t, "lead") + `"` + rapid.SampledFrom(c13Words).Draw(t, "w") + rapid.SampledFrom([]string{"", `"`, ` inch`}).Draw(t, "qtail")
	case 9: // a bare carriage return inside the field (old Mac line ends pasted into a cell)
		return rapid.SampledFrom(c13Words).Draw(t, "w") + "\r" + rapid.SampledFrom(c13Words).Draw(t, "w2")
	case 1: // quoted containing the separator
		return `"` + rapid.SampledFrom(c13Words).Draw(t, "w") + string(sep) + rapid.SampledFrom(c13Words).Draw(t, "w2") + `"`
	case 2: // quoted with doubled quotes
		return `"say ""` + rapid.SampledFrom(c13Words).Draw(t, "w") + `"""`
	case 3: // quoted plain
		return `"` + rapid.SampledFrom(c13Words).Draw(t, "w") + `"`
	}
	w := rapid.SampledFrom(c13Words).Draw(t, "w")
	if !tsv && rapid.IntRange(0, 5).Draw(t, "tab") == 0 {
		w += "\tq"
	}
	return w
}

type c13Table struct {
	sep     byte
	nl      string
	rows    [][]string // nil row = comment line
	comment []string
	final   bool
}

func (tb c13Table) render() (doc []byte, lineEnds []int, isRecord []bool) {
	var b []byte
	ci := 0
	for i, r := range tb.rows {
		if r == nil {
			b = append(b, tb.comment[ci]...)
			ci++
			isRecord = append(isRecord, false)
		} else {
			b = append(b, strings.Join(r, string(tb.sep))...)
			isRecord = append(isRecord, true)
		}
		if i < len(tb.rows)-1 || tb.final {
			b = append(b, tb.nl...)
			lineEnds = append(lineEnds, len(b))
		} else {
			lineEnds = append(lineEnds, -1)
		}
	}
	return b, lineEnds, isRecord
}

func c13GenTable(t *rapid.T) (c13Table, string) {
	tsv := rapid.Bool().Draw(t, "tsv")
	tb := c13Table{sep: ',', nl: rapid.SampledFrom([]string{"\n", "\n", "\r\n"}).Draw(t, "nl"), final: rapid.Bool().Draw(t, "final")}
	kind := "csv"
	if tsv {
		tb.sep, kind = '\t', "tsv"
	}
	cols := rapid.IntRange(2, 6).Draw(t, "cols")
	recs := rapid.IntRange(2, 8).Draw(t, "recs")
	if rapid.IntRange(0, 39).Draw(t, "big") == 0 {
		recs = rapid.IntRange(100, 400).Draw(t, "bigrecs") // larger than the default limit
	}
	for i := 0; i < recs; i++ {
		// comment lines and blank lines may come before any record, also before the first one
		for rapid.IntRange(0, 7).Draw(t, "cm") == 0 {
			tb.rows = append(tb.rows, nil)
			tb.comment = append(tb.comment, rapid.SampledFrom([]string{"# comment", "#", "#a,b,c,d,e,f,g,h", "# \"unbalanced", "", "#\tx\ty", "# generated 2024-01-01"}).Draw(t, "ct"))
		}
		row := make([]string, cols)
		allEmpty := true
		for j := range row {
			row[j] = c13Field(t, tb.sep, tsv)
			if row[j] != "" {
				allEmpty = false
			}
		}
		if allEmpty || row[0] == "" && i == 0 {
			row[0] = "r" + fmt.Sprint(i)
		}
		if strings.HasPrefix(row[0], "#") {
			row[0] = "x" + row[0]
		}
		tb.rows = append(tb.rows, row)
	}
	return tb, kind
}

func c13GenNDJSON(t *rapid.T) (lines []string, nl string, final bool) {
	nl = rapid.SampledFrom([]string{"\n", "\n", "\r\n"}).Draw(t, "nl")
	final = rapid.Bool().Draw(t, "final")
	n := rapid.IntRange(2, 8).Draw(t, "nlines")
	for i := 0; i < n; i++ {
		d := &jdoc{}
		if i == 0 || rapid.IntRange(0, 2).Draw(t, "cont") > 0 {
			if rapid.Bool().Draw(t, "obj") {
				jGenObject(t, d, 2)
			} else {
				jGenArray(t, d, 2)
			}
		} else {
			jGenValue(t, d, 0)
		}
		// compact: no line terminators inside a record (generator whitespace may contain them)
		var sb strings.Builder
		for _, tk := range d.toks {
			if tk.Kind == 'w' {
				if strings.ContainsAny(tk.Text, "\r\n") {
					continue
				}
			}
			sb.WriteString(tk.Text)
		}
		s := sb.String()
		if strings.Contains(s, "<") {
			s = strings.ReplaceAll(s, "<", "(")
		}
		lines = append(lines, s)
	}
	return
}

func c13WantMime(kind string) (string, []*MIME) {
	switch kind {
	case "csv":
		return "text/csv", []*MIME{text, csv}
	case "tsv":
		return "text/tab-separated-values", []*MIME{text, tsv}
	}
	return "application/x-ndjson", []*MIME{text, ndJSON}
}

func c13FwdCheck(c c13Fwd) vfResult {
	doc := []byte(c.Doc)
	want, path := c13WantMime(c.Kind)
	var r vfResult
	r.LabelN = map[string]int64{}
	r.Labels = append(r.Labels, "fwd-"+c.Kind)
	if hp := vfEarlierSiblingOpt(path, doc, 0, false); hp != "" {
		return vfResult{Skip: "higher-priority-signature:" + hp}
	}
	var limits []uint32
	if c.Limit != nil {
		limits = []uint32{*c.Limit}
	} else {
		limits = []uint32{0, uint32(len(doc) + 1), uint32(len(doc) + 7)}
		if c.Second >= 0 {
			step := 1
			if len(doc)-c.Second > 1500 {
				step = 23 // large tables: every 23rd cut, plus everything around the default limit and the end
			}
			for L := c.Second; L <= len(doc); L += step {
				limits = append(limits, uint32(L))
			}
			if step > 1 {
				for _, L := range []int{3071, 3072, 3073, len(doc) - 1, len(doc)} {
					if L >= c.Second && L <= len(doc) {
						limits = append(limits, uint32(L))
					}
				}
			}
		}
	}
	for _, L := range limits {
		if L != 0 && int(L) <= len(doc) && (c.Second < 0 || int(L) < c.Second) {
			return vfFailf("generator bug: limit %d before the end of the second complete record line (%d)", L, c.Second)
		}
		h := vfHeader(doc, L)
		if L != 0 && int(L) <= len(doc) {
			if hp := vfEarlierSiblingOpt(path, h, L, false); hp != "" {
				r.LabelN["cut-exception:"+hp]++
				continue
			}
		}
		r.N++
		if L != 0 && int(L) < len(doc) {
			r.Nontrivial = true
			switch {
			case doc[L-1] == '\n':
				r.LabelN["cut-after-LF"]++
			case doc[L-1] == '\r' && doc[L] == '\n':
				r.LabelN["cut-between-CR-LF"]++
			case doc[L] == '\n' || doc[L] == '\r':
				r.LabelN["cut-before-terminator"]++
			default:
				r.LabelN["cut-inside-line"]++
			}
		} else if int(L) == len(doc) {
			r.LabelN["limit==len"]++
			r.Nontrivial = true
		} else {
			r.LabelN["whole"]++
		}
		m := vfDetectAt(doc, L)
		if vfBare(m.String()) != want {
			r.Err = fmt.Errorf("%s table/stream at limit %d (len %d, second line ends at %d): want %s, got %s; doc %s", c.Kind, L, len(doc), c.Second, want, vfChainStr(m), vfQ(doc))
			return r
		}
		if L%5 == 0 || int(L) >= len(doc) {
			if err := vfRoutes(doc, L, m); err != nil {
				r.Err = fmt.Errorf("%s at limit %d: %v; doc %s", c.Kind, L, err, vfQ(doc))
				return r
			}
		}
	}
	r.Hash = vfHash(doc)
	return r
}

func c13GenFwd(t *rapid.T) c13Fwd {
	if rapid.IntRange(0, 2).Draw(t, "k") == 0 {
		lines, nl, final := c13GenNDJSON(t)
		// one terminator for the whole file, or LF and CRLF mixed line by line; blank lines
		// (empty, or only spaces and tabs) may separate the records
		mixed := rapid.IntRange(0, 2).Draw(t, "mixednl") == 0
		blanks := rapid.IntRange(0, 2).Draw(t, "blanks") == 0
		term := func() string {
			if mixed {
				return rapid.SampledFrom([]string{"\n", "\r\n"}).Draw(t, "linenl")
			}
			return nl
		}
		var b []byte
		second := -1
		for i, l := range lines {
			if blanks && i > 0 && rapid.IntRange(0, 2).Draw(t, "blankhere") == 0 {
				b = append(b, rapid.SampledFrom([]string{"", " ", "\t", "  ", " \t "}).Draw(t, "blank")...)
				b = append(b, term()...)
			}
			b = append(b, l...)
			if i < len(lines)-1 || final {
				b = append(b, term()...)
				if i == 1 {
					second = len(b)
				}
			}
		}
		return c13Fwd{Kind: "ndjson", Doc: b, Second: second}
	}
	tb, kind := c13GenTable(t)
	doc, ends, isRec := tb.render()
	second, nrec := -1, 0
	for i := range ends {
		if isRec[i] {
			nrec++
			if nrec == 2 {
				second = ends[i]
				break
			}
		}
	}
	return c13Fwd{Kind: kind, Doc: doc, Second: second, Comment: len(tb.comment) > 0}
}

// ---- converse (i)/(ii): one damaged line inside the complete-line region

type c13Neg struct {
	Kind   string `json:"kind"`
	Doc    vfB    `json:"doc"`
	Limit  uint32 `json:"limit"`
	Damage string `json:"damage"`
	Line   int    `json:"damaged_line"`
	Last   bool   `json:"damaged_is_last"`
}

func c13GenNeg(t *rapid.T) c13Neg {
	var c c13Neg
	var doc []byte
	var ends []int
	if rapid.IntRange(0, 2).Draw(t, "k") == 0 {
		c.Kind = "ndjson"
		lines, nl, final := c13GenNDJSON(t)
		c.Line = rapid.IntRange(0, len(lines)-1).Draw(t, "dl")
		l := lines[c.Line]
		switch rapid.IntRange(0, 5).Draw(t, "dk") {
		case 4, 5:
			// one structural character lost, swapped for its counterpart, or doubled - somewhere
			// INSIDE the value (the reference oracle discards mutations that leave the line valid)
			c.Damage = "structure-mutated"
			var idx []int
			for i := 0; i < len(l); i++ {
				if strings.IndexByte("[]{},:", l[i]) >= 0 {
					idx = append(idx, i)
				}
			}
			if len(idx) == 0 {
				l = l + "}"
				break
			}
			p := idx[rapid.IntRange(0, len(idx)-1).Draw(t, "mp")]
			switch rapid.IntRange(0, 3).Draw(t, "mk") {
			case 0:
				l = l[:p] + l[p+1:]
			case 1:
				l = l[:p] + string(map[byte]byte{'[': '{', ']': '}', '{': '[', '}': ']', ',': ':', ':': ','}[l[p]]) + l[p+1:]
			case 2:
				l = l[:p] + string(l[p]) + l[p:]
			default:
				l = l[:p+1] + rapid.SampledFrom([]string{"[", "{", "[}", "{]", "[,", "{,", "[{]"}).Draw(t, "ins") + l[p+1:]
			}
		case 0:
			c.Damage = "truncated-value"
			if len(l) > 1 {
				l = l[:rapid.IntRange(1, len(l)-1).Draw(t, "cut")]
			} else {
				l = l + ","
			}
		case 1:
			c.Damage = "trailing-garbage"
			l = l + rapid.SampledFrom([]string{" x", "]", "}", ",", " 1", ":"}).Draw(t, "g")
		case 2:
			c.Damage = "unbalanced"
			l = rapid.SampledFrom([]string{"[", "{", "[[", "{\"a\":"}).Draw(t, "pre") + l
		default:
			c.Damage = "not-json"
			l = rapid.SampledFrom([]string{"hello", "{a:1}", "['x']", "nul", "-", "\"open"}).Draw(t, "nj")
		}
		lines[c.Line] = l
		for i, l := range lines {
			doc = append(doc, l...)
			if i < len(lines)-1 || final {
				doc = append(doc, nl...)
				ends = append(ends, len(doc))
			} else {
				ends = append(ends, -1)
			}
		}
		c.Last = c.Line == len(lines)-1
	} else {
		tb, kind := c13GenTable(t)
		c.Kind = kind
		var recIdx []int
		for i, r := range tb.rows {
			if r != nil {
				recIdx = append(recIdx, i)
			}
		}
		c.Line = recIdx[rapid.IntRange(0, len(recIdx)-1).Draw(t, "dl")]
		row := append([]string(nil), tb.rows[c.Line]...)
		if rapid.Bool().Draw(t, "add") {
			c.Damage = "field-added"
			p := rapid.IntRange(0, len(row)).Draw(t, "p")
			row = append(row[:p], append([]string{rapid.SampledFrom([]string{"extra", "", "\"q\""}).Draw(t, "xf")}, row[p:]...)...)
		} else {
			c.Damage = "field-removed"
			p := rapid.IntRange(0, len(row)-1).Draw(t, "p")
			row = append(row[:p], row[p+1:]...)
		}
		allEmpty := true
		for _, f := range row {
			if f != "" {
				allEmpty = false
			}
		}
		if allEmpty || strings.HasPrefix(row[0], "#") || (len(row) == 1 && row[0] == "") {
			row[0] = "zz"
		}
		tb.rows[c.Line] = row
		var isRec []bool
		doc, ends, isRec = tb.render()
		_ = isRec
		c.Last = c.Line == len(tb.rows)-1
	}
	c.Doc = doc
	// limit keeps the damaged line inside the complete-line region
	opts := []uint32{0, uint32(len(doc) + 1)}
	if e := ends[c.Line]; e >= 0 {
		opts = append(opts, uint32(e), uint32(len(doc)))
		if e < len(doc) {
			opts = append(opts, uint32(rapid.IntRange(e, len(doc)).Draw(t, "lim")))
		}
	}
	c.Limit = rapid.SampledFrom(opts).Draw(t, "limit")
	return c
}

func c13NegCheck(c c13Neg) vfResult {
	doc := []byte(c.Doc)
	h := vfHeader(doc, c.Limit)
	var r vfResult
	r.Labels = append(r.Labels, "neg-"+c.Kind, "damage-"+c.Damage)
	r.Nontrivial = !c.Last
	r.Hash = vfHash(doc, vfHashU(uint64(c.Limit)))
	// sanity: the damage must be visible to the reference oracle, otherwise the case says nothing
	if c.Kind == "ndjson" {
		if ok, _ := c13NDJSONOracle(h, c.Limit); ok {
			return vfResult{Skip: "damage-left-stream-well-formed"}
		}
	}
	want, _ := c13WantMime(c.Kind)
	m := vfDetectAt(doc, c.Limit)
	if vfBare(m.String()) == want {
		r.Err = fmt.Errorf("%s with a damaged line %d (%s) inside the complete region is still reported as %s at limit %d: %s", c.Kind, c.Line, c.Damage, want, c.Limit, vfQ(doc))
	}
	var det func([]byte, uint32) bool
	switch c.Kind {
	case "csv":
		det = magic.Csv
	case "tsv":
		det = magic.Tsv
	default:
		det = magic.NdJSON
	}
	if r.Err == nil && det(vfExact(h), c.Limit) {
		r.Err = fmt.Errorf("magic check for %s accepts a stream with a damaged line %d (%s) at limit %d: %s", c.Kind, c.Line, c.Damage, c.Limit, vfQ(h))
	}
	return r
}

// ---- converse (iii): necessary conditions on arbitrary quote-free text

// c13CompleteLines splits the header into its complete lines: all lines in whole mode, the
// LF-terminated ones in truncated mode. A trailing CR of a line is removed.
func c13CompleteLines(h []byte, limit uint32) [][]byte {
	truncated := limit != 0 && len(h) >= int(limit)
	var out [][]byte
	rest := h
	for len(rest) > 0 {
		i := bytes.IndexByte(rest, '\n')
		if i < 0 {
			if !truncated {
				out = append(out, bytes.TrimSuffix(rest, []byte("\r")))
			}
			break
		}
		out = append(out, bytes.TrimSuffix(rest[:i], []byte("\r")))
		rest = rest[i+1:]
	}
	return out
}

func c13SVOracle(h []byte, limit uint32, sep byte) (bool, string) {
	count := -1
	for i, l := range c13CompleteLines(h, limit) {
		if len(l) == 0 || l[0] == '#' {
			continue
		}
		n := bytes.Count(l, []byte{sep}) + 1
		if n < 2 {
			return false, fmt.Sprintf("line %d has %d field", i, n)
		}
		if count >= 0 && n != count {
			return false, fmt.Sprintf("line %d has %d fields, earlier lines %d", i, n, count)
		}
		count = n
	}
	return true, ""
}

// c13NDJSONOracle takes the literal (weakest) reading of the statement: at least two lines
// (the incomplete last one counts as a line), every COMPLETE line blank or a complete JSON
// value, and at least one line - complete or not - opening an object or array.
func c13NDJSONOracle(h []byte, limit uint32) (bool, string) {
	lines := c13CompleteLines(h, limit)
	total := len(lines)
	containers := 0
	truncated := limit != 0 && len(h) >= int(limit)
	if truncated {
		if i := bytes.LastIndexByte(h, '\n'); i+1 < len(h) {
			total++
			// the incomplete last line counts as a line AND as a candidate container: the weakest
			// reading. (A stricter one - containers among complete lines only - is violated by the
			// unchanged tree for "\n{}" at limit 3, where the only line break sits at offset 0.)
			if t := bytes.TrimLeft(h[i+1:], " \t\r\n"); len(t) > 0 && (t[0] == '{' || t[0] == '[') {
				containers++
			}
		}
	}
	if total < 2 {
		return false, fmt.Sprintf("%d line(s)", total)
	}
	for i, l := range lines {
		blank := true
		for _, b := range l {
			if !rIsWS(b) {
				blank = false
				break
			}
		}
		if blank {
			continue
		}
		if member, _ := vfJSONRef(l, true); !member {
			return false, fmt.Sprintf("line %d (%s) is not a complete JSON value", i, vfQ(l))
		}
		t := bytes.TrimLeft(l, " \t\r\n")
		if t[0] == '{' || t[0] == '[' {
			containers++
		}
	}
	if containers == 0 {
		return false, "no line is an object or array"
	}
	return true, ""
}

type c13Txt struct {
	X     vfB    `json:"x"`
	Limit uint32 `json:"limit"`
}

var c13TxtPieces = []string{"a", "b", "1", "22", ",", ",", ",", "\t", "\t", "\n", "\n", "\r\n", "\r", "#", " ", "x y", "{", "}", "[", "]", ":", "{\"a\":1}", "[1,2]", "{\"a\":", "[1", "true", "nul", "null", "-", "1e", "\\", "é", ";", ",,", "\n\n", "{}", "[]", "\"s\"", "\"s", "0"}

func c13GenTxt(t *rapid.T) c13Txt {
	var sb strings.Builder
	switch rapid.IntRange(0, 3).Draw(t, "mode") {
	case 0: // free pieces
		n := rapid.IntRange(1, 16).Draw(t, "n")
		quoteFree := rapid.IntRange(0, 3).Draw(t, "qf") > 0
		for i := 0; i < n; i++ {
			p := rapid.SampledFrom(c13TxtPieces).Draw(t, "p")
			if quoteFree && strings.Contains(p, "\"") {
				p = "q"
			}
			sb.WriteString(p)
		}
	case 1, 2: // nearly rectangular delimiter-separated lines
		sep := rapid.SampledFrom([]string{",", "\t"}).Draw(t, "sep")
		base := rapid.IntRange(1, 4).Draw(t, "base")
		nl := rapid.SampledFrom([]string{"\n", "\n", "\r\n"}).Draw(t, "nl")
		n := rapid.IntRange(1, 7).Draw(t, "lines")
		for i := 0; i < n; i++ {
			switch rapid.IntRange(0, 11).Draw(t, "lk") {
			case 0:
				sb.WriteString("#c" + sep + "x")
			case 1: // blank
			case 2:
				sb.WriteString("\r")
			default:
				cnt := base
				if rapid.IntRange(0, 7).Draw(t, "dev") == 0 {
					cnt = rapid.IntRange(0, 5).Draw(t, "cnt")
				}
				for j := 0; j <= cnt; j++ {
					if j > 0 {
						sb.WriteString(sep)
					}
					sb.WriteString(rapid.SampledFrom([]string{"a", "", "12", "x y", "é", "#", "'", ";", "\r", "b\tc", "d,e"}).Draw(t, "cell"))
				}
			}
			if i < n-1 || rapid.Bool().Draw(t, "final") {
				sb.WriteString(nl)
			}
		}
	default: // nearly valid NDJSON
		nl := rapid.SampledFrom([]string{"\n", "\n", "\r\n"}).Draw(t, "nl")
		n := rapid.IntRange(1, 6).Draw(t, "lines")
		for i := 0; i < n; i++ {
			sb.WriteString(rapid.SampledFrom([]string{"{\"a\":1}", "[1,2]", "{}", "[]", " [ ] ", "1", "\"s\"", "true", "null", "", " ", "\t", "{\"a\":", "[1", "[1,]", "{\"a\":1,}", "[1]]", "{\"a\":1}x", "nul", "-", "1e", "[\"\\u12\"]", "{\"a\" 1}", "[1 2]", "{\"k\":[{\"z\":null}]}", "\"open"}).Draw(t, "jl"))
			if i < n-1 || rapid.Bool().Draw(t, "final") {
				sb.WriteString(nl)
			}
		}
	}
	x := sb.String()
	return c13Txt{X: vfB(x), Limit: vfGenLimit(t, len(x))}
}

func c13TxtCheck(c c13Txt) vfResult {
	x := []byte(c.X)
	h := vfHeader(x, c.Limit)
	var r vfResult
	quoteFree := !bytes.ContainsRune(h, '"')
	r.Hash = vfHash(x, vfHashU(uint64(c.Limit)))
	m := vfDetectAt(x, c.Limit)
	verdict := vfBare(m.String())
	hx := vfExact(h)
	type svc struct {
		name string
		sep  byte
		det  func([]byte, uint32) bool
		mime string
	}
	for _, s := range []svc{{"Csv", ',', magic.Csv, "text/csv"}, {"Tsv", '\t', magic.Tsv, "text/tab-separated-values"}} {
		acc := s.det(hx, c.Limit)
		if acc || verdict == s.mime {
			r.Nontrivial = true
			r.Labels = append(r.Labels, "accepted-"+s.name)
			if !quoteFree {
				// quoted fields change how a line splits; the line-count oracle only speaks about quote-free text
				r.Labels = append(r.Labels, "accepted-with-quotes(not judged)")
				continue
			}
			if ok, why := c13SVOracle(h, c.Limit, s.sep); !ok {
				r.Err = fmt.Errorf("%s verdict (direct=%v detect=%s) at limit %d but %s: %s", s.name, acc, verdict, c.Limit, why, vfQ(h))
				return r
			}
		}
	}
	acc := magic.NdJSON(hx, c.Limit)
	if acc || verdict == "application/x-ndjson" {
		r.Nontrivial = true
		r.Labels = append(r.Labels, "accepted-NdJSON")
		if ok, why := c13NDJSONOracle(h, c.Limit); !ok {
			r.Err = fmt.Errorf("NDJSON verdict (direct=%v detect=%s) at limit %d but %s: %s", acc, verdict, c.Limit, why, vfQ(h))
		}
	}
	return r
}

func TestVerif_C13(t *testing.T) {
	defer vfStats.dump()
	if vfOnlySub("selfsum") && !vfReplayMode() && vfShard() == 0 {
		// tables / streams whose bytes 148..155 spell the tar checksum of their own first block
		n := 0
		for _, fill := range []byte{'z', 'm', 'Q'} {
			for _, v := range []struct {
				digits int
				tail   string
			}{{6, " ,"}, {6, ",x"}, {5, " ,x"}, {6, " x"}} {
				// (a field made of octal digits and blanks only WOULD be a valid tar checksum field: such
				// a file really carries the tar signature and is outside this property)
				for _, kind := range []string{"csv", "tsv", "ndjson"} {
					var doc []byte
					second := -1
					switch kind {
					case "csv", "tsv":
						sep := byte(',')
						if kind == "tsv" {
							sep = '\t'
						}
						tail := strings.ReplaceAll(v.tail, ",", string(sep))
						doc = append(doc, bytes.Repeat([]byte{fill}, 147)...)
						doc = append(doc, sep)
						doc = append(doc, "00000000"...)
						if !strings.Contains(tail, string(sep)) {
							doc = append(doc, sep)
						}
						doc = append(doc, "x\n"...)
						for len(doc) < 700 {
							doc = append(doc, []byte("a"+string(sep)+"b"+string(sep)+"c\n")...)
							if second < 0 {
								second = len(doc)
							}
						}
						v.tail = tail
					default:
						doc = append(doc, "[\""...)
						doc = append(doc, bytes.Repeat([]byte{fill}, 144)...)
						doc = append(doc, "\","...)
						doc = append(doc, "00000000"...)
						doc = append(doc, "1]\n"...)
						for len(doc) < 700 {
							doc = append(doc, "{\"a\":1}\n"...)
							if second < 0 {
								second = len(doc)
							}
						}
					}
					p := vfSelfSum(doc, v.digits, v.tail)
					if p == nil {
						continue
					}
					if kind == "ndjson" && !ejson.Valid(p[:bytes.IndexByte(p, '\n')]) {
						continue // this field spelling is not a JSON value
					}
					n++
					c := c13Fwd{Kind: kind, Doc: p, Second: second}
					r := c13FwdCheck(c)
					r.Nontrivial = true
					r.Labels = append(r.Labels, "selfsum")
					vfStats.record(r, func() any { return map[string]any{"sub": "selfsum", "kind": kind, "field": string(p[148:156])} })
					if r.Err != nil {
						vfEnumFail(t, "C13", "fwd", c, r.Err)
						return
					}
				}
			}
		}
		vfStats.Subchecks["selfsum"] = fmt.Sprintf("%d tables / streams whose bytes 148..155 spell the tar checksum of their first block", n)
	}
	if t.Failed() {
		return
	}
	if vfOnlySub("fwd") {
		vfRun(t, vfSub[c13Fwd]{Prop: "C13", Name: "fwd", Checks: vfN(20000, 1500000), Gen: c13GenFwd, Check: c13FwdCheck})
	}
	if t.Failed() {
		return
	}
	if vfOnlySub("huge") && !vfReplayMode() && vfShard() == 2%vfNShards() {
		// a limit of 256 KiB that cuts a last line which began 70-200 KB earlier: the incomplete
		// line is ignored however long it is
		for _, k := range []struct{ kind, head, unit, want string }{
			{"csv", "id,name,value\n1,a,b\n2,c,d\n3,\"", "long field ", "text/csv"},
			{"tsv", "id\tname\tvalue\n1\ta\tb\n2\tc\td\n3\t", "long field ", "text/tab-separated-values"},
			{"ndjson", "{\"id\":1}\n{\"id\":2}\n{\"id\":3,\"blob\":\"", "xxxxxxxxxx", "application/x-ndjson"},
		} {
			for _, before := range []int{70000, 200000} {
				L := 256 << 10
				x := []byte(k.head)
				for len(x) < L+5000 {
					x = append(x, k.unit...)
				}
				// the long line starts `before` bytes ahead of the cut: pad the complete part
				padLines := (L - before - len(k.head)) / 8
				var pre []byte
				for i := 0; i < padLines; i++ {
					switch k.kind {
					case "csv":
						pre = append(pre, "9,z,y\n"...)
					case "tsv":
						pre = append(pre, "9\tz\ty\n"...)
					default:
						pre = append(pre, "{\"p\":1}\n"...)
					}
				}
				first := bytes.IndexByte(x, '\n') + 1
				doc := append(append(append([]byte(nil), x[:first]...), pre...), x[first:]...)
				m := vfDetectAt(doc, uint32(L))
				var r vfResult
				r.Nontrivial, r.Labels, r.Hash = true, []string{"huge", "long-cut-line"}, vfHash([]byte(k.kind), vfHashU(uint64(before)))
				if vfBare(m.String()) != k.want {
					r.Err = fmt.Errorf("%s of %d bytes under limit %d, the cut falling into a last line that started about %d bytes earlier: reported as %s", k.kind, len(doc), L, before, vfChainStr(m))
				} else if err := vfRoutes(doc, uint32(L), m); err != nil {
					r.Err = err
				}
				vfStats.record(r, func() any { return map[string]any{"sub": "huge", "kind": k.kind, "len": len(doc), "limit": L, "cut_line_started_before": before} })
				if r.Err != nil {
					vfEnumFail(t, "C13", "txt", c13Txt{X: doc[:200], Limit: 0}, r.Err)
					return
				}
			}
		}
	}
	if t.Failed() {
		return
	}
	if vfOnlySub("huge") && !vfReplayMode() && vfShard() < 2 {
		type hc struct {
			kind, want string
			is     bool
		}
		for _, h := range []hc{{"csv", "text/csv", true}, {"csv-ragged-late", "text/csv", false}, {"ndjson-long-line", "application/x-ndjson", true}, {"ndjson-long-line-then-damage", "application/x-ndjson", false}} {
			for _, n := range []int{70000, 200000}[vfShard() : vfShard()+1] {
				x := vfBig(h.kind, n)
				for _, L := range []uint32{0, uint32(len(x) + 1), 2 << 20} {
					m := vfDetectAt(x, L)
					var r vfResult
					r.Nontrivial, r.Labels, r.Hash = true, []string{"huge"}, vfHash([]byte(h.kind), vfHashU(uint64(n), uint64(L)))
					if got := vfBare(m.String()) == h.want; got != h.is {
						r.Err = fmt.Errorf("%s of %d bytes examined in full (limit %d): reported as %s, %s expected = %v", h.kind, len(x), L, vfChainStr(m), h.want, h.is)
					}
					vfStats.record(r, func() any { return map[string]any{"sub": "huge", "kind": h.kind, "len": len(x), "limit": L} })
					if r.Err != nil {
						vfEnumFail(t, "C13", "txt", c13Txt{X: x[len(x)-min(len(x), 200):], Limit: 0}, r.Err)
						return
					}
				}
			}
		}
	}
	if t.Failed() {
		return
	}
	if vfOnlySub("neg") {
		vfRun(t, vfSub[c13Neg]{Prop: "C13", Name: "neg", Checks: vfN(60000, 3000000), Gen: c13GenNeg, Check: c13NegCheck})
	}
	if t.Failed() {
		return
	}
	if vfOnlySub("txt") {
		vfRun(t, vfSub[c13Txt]{Prop: "C13", Name: "txt", Checks: vfN(150000, 6000000), Gen: c13GenTxt, Check: c13TxtCheck})
	}
}
