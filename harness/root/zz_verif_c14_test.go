//go:build verif

package mimetype

import (
	ejson "encoding/json"
	"fmt"
	"testing"
	"time"

	"pgregory.net/rapid"
)

// C14 — extensions take priority, stay inside their parent, and disturb nothing else.
//
// Stateful model-based test. The model is a shadow tree (plain structs) built from the live
// tree at the start of each history and updated by "prepend under the looked-up parent".
// After every step, for a pool of inputs:
//   * chain(Detect(x)) == first-match walk over the shadow tree;
//   * inputs rejected by every extension predicate give exactly the pre-history baseline;
//   * every extension name and alias is found by Lookup, with the right extension and with
//     Parent() identical to Lookup(parent name);
//   * values returned in earlier steps still report the same String/Extension/chain.

type c14Step struct {
	Op  string  `json:"op"` // extend | probe
	Ext *vfExt  `json:"ext,omitempty"`
	X   vfB     `json:"x,omitempty"`
	Lim uint32  `json:"limit,omitempty"`
}

type c14Case struct {
	Pool  []vfB     `json:"pool"`
	Steps []c14Step `json:"steps"`
}

type c14Held struct {
	m     *MIME
	chain []vfNode
}

func c14Check(c c14Case) vfResult {
	var r vfResult
	// a history that blocks forever (e.g. a lock that was never released) is a failure
	defer vfWatchdog("C14", "machine", c, 40*time.Second)()
	vfTreeSnapshot()
	vfTreeRestore()
	defer vfTreeRestore()
	shadow := vfShadowFrom(root, nil)
	pool := make([][]byte, len(c.Pool))
	baseline := make([][]vfNode, len(c.Pool))
	for i, p := range c.Pool {
		pool[i] = []byte(p)
		baseline[i] = vfChain(Detect(pool[i]))
	}
	var exts []vfExt
	var held []c14Held
	flags := map[string]bool{}
	sameParent := map[string]int{}
	invariant := func(step int) error {
		if len(c.Steps) > 100 && step%50 != 49 && step != len(c.Steps)-1 {
			return nil // long histories: full invariants every 50th step and at the end
		}
		for i, x := range pool {
			m := Detect(x)
			got := vfChain(m)
			want, viaExt := shadow.walk(x, defaultLimit)
			if !vfChainEq(got, want) {
				return fmt.Errorf("after step %d: Detect(pool[%d]=%s) = %s, model says %s", step, i, vfQ(x), vfChainFmt(got), vfChainFmt(want))
			}
			if viaExt {
				flags["input-classified-under-extension"] = true
				// did an older sibling accept as well? (priority exercised)
				flags["priority"] = true
			}
			if !shadow.anyExtAccepts(x, defaultLimit) {
				if !vfChainEq2(got, baseline[i]) {
					return fmt.Errorf("after step %d: pool[%d]=%s is rejected by every extension but changed from %s to %s", step, i, vfQ(x), vfChainFmt(baseline[i]), vfChainFmt(got))
				}
			}
			held = append(held, c14Held{m, got})
			if len(held) > 64 {
				held = held[len(held)-64:]
			}
		}
		for _, e := range exts {
			for _, name := range append([]string{e.Mime}, e.Aliases...) {
				want := shadow.lookup(name)
				l := Lookup(name)
				if l == nil || want == nil {
					return fmt.Errorf("after step %d: Lookup(%q) = %v, model finds %v", step, name, l, want != nil)
				}
				// the whole chain of the looked-up node must be the model's chain
				wn := want
				for ln := l; ln != nil || wn != nil; ln, wn = ln.Parent(), wn.parent {
					if ln == nil || wn == nil || ln.String() != wn.mime || ln.Extension() != wn.ext {
						return fmt.Errorf("after step %d: Lookup(%q) has chain %s, model says %s %s with parents up to the root", step, name, vfChainStr(l), want.mime, want.ext)
					}
				}
				var wantParent *MIME
				if want.parent != nil && want.parent.parent == nil {
					wantParent = Lookup("application/octet-stream")
				}
				if wantParent != nil && l.Parent() != wantParent {
					return fmt.Errorf("after step %d: Lookup(%q).Parent() is not the root node", step, name)
				}
				// (Is speaks about well-formed media types; a name with control characters is found by
				// Lookup, classified under and reported, but is outside what Is promises)
				wellFormed := true
				for i := 0; i < len(name); i++ {
					if name[i] < 0x20 || name[i] == 0x7f {
						wellFormed = false
					}
				}
				if wellFormed && !l.Is(name) {
					return fmt.Errorf("after step %d: Lookup(%q).Is(%q) is false", step, name, name)
				}
			}
		}
		if flags["extend-called-on-a-returned-value"] {
			for _, n := range []string{"application/x-verif-onresult", "application/x-verif-onresult-parent", "application/x-verif-onresult-alias"} {
				if l := Lookup(n); l != nil {
					return fmt.Errorf("after step %d: Lookup(%q) finds %s although that name was only ever passed to Extend on a value RETURNED by a detection (a detached copy), never to a registered format", step, n, vfChainStr(l))
				}
			}
		}
		for _, h := range held {
			if now := vfChain(h.m); !vfChainEq2(now, h.chain) {
				return fmt.Errorf("after step %d: a value returned earlier changed from %s to %s", step, vfChainFmt(h.chain), vfChainFmt(now))
			}
		}
		return nil
	}
	for si, st := range c.Steps {
		switch st.Op {
		case "extend":
			e := *st.Ext
			if shadow.lookup(e.Parent) == nil && e.Parent != "" {
				return vfResult{Skip: "extend-parent-unknown"}
			}
			if err := e.apply(); err != nil {
				r.Err = fmt.Errorf("step %d: %v although the model knows %q", si, err, e.Parent)
				return r
			}
			if err := shadow.extend(e); err != nil {
				r.Err = err
				return r
			}
			exts = append(exts, e)
			sameParent[e.Parent]++
			if sameParent[e.Parent] >= 2 {
				flags["two-extensions-same-parent"] = true
			}
			for _, o := range exts[:len(exts)-1] {
				if e.Parent == o.Mime || (len(o.Aliases) > 0 && e.Parent == o.Aliases[0]) {
					flags["extension-under-extension"] = true
				}
			}
		case "extend-result":
			// Extend on a value returned earlier: it is a clone, the registered formats must not change
			// (the results of the last detections of every pool input: text with and without charset,
			// binary formats, results below extensions - and every ancestor of each of them)
			for k := len(held) - 1; k >= 0 && k >= len(held)-len(pool); k-- {
				h := held[k].m
				h.Extend(func([]byte, uint32) bool { return true }, "application/x-verif-onresult", ".onr")
				for p, d := h.Parent(), 0; p != nil && d < 8; p, d = p.Parent(), d+1 {
					p.Extend(func([]byte, uint32) bool { return true }, "application/x-verif-onresult-parent", ".onp", "application/x-verif-onresult-alias")
				}
				flags["extend-called-on-a-returned-value"] = true
			}
		case "readerr":
			// a detection that fails while reading must leave the registry usable
			SetLimit(st.Lim)
			m, err := DetectReader(&c02FailReader{data: []byte(st.X), at: 0})
			SetLimit(defaultLimit)
			if err == nil || m == nil {
				r.Err = fmt.Errorf("step %d: failing reader returned (%v, %v)", si, m, err)
				return r
			}
			flags["failing-reader-before-extend"] = true
		case "probe":
			x := []byte(st.X)
			SetLimit(st.Lim)
			m := Detect(x)
			SetLimit(defaultLimit)
			got := vfChain(m)
			want, _ := shadow.walk(x, st.Lim)
			if !vfChainEq(got, want) {
				r.Err = fmt.Errorf("step %d: probe Detect(%s) at limit %d = %s, model says %s", si, vfQ(x), st.Lim, vfChainFmt(got), vfChainFmt(want))
				return r
			}
		}
		if err := invariant(si); err != nil {
			r.Err = err
			return r
		}
	}
	r.Nontrivial = flags["two-extensions-same-parent"] || flags["extension-under-extension"] || flags["input-classified-under-extension"]
	for f := range flags {
		r.Labels = append(r.Labels, f)
	}
	r.N = int64(len(c.Steps) * (len(pool) + 1))
	cb, _ := ejson.Marshal(c)
	r.Hash = vfHash(cb)
	return r
}

func vfChainEq2(a, b []vfNode) bool {
	if len(a) != len(b) {
		return false
	}
	for i := range a {
		if a[i] != b[i] {
			return false
		}
	}
	return true
}

func c14Gen(t *rapid.T) c14Case {
	var c c14Case
	np := rapid.IntRange(4, 10).Draw(t, "npool")
	for i := 0; i < np; i++ {
		var x []byte
		switch rapid.IntRange(0, 4).Draw(t, "pk") {
		case 0:
			x = vfGenSeed(t)
		case 1:
			x = append([]byte(rapid.SampledFrom([]string{"VF1:", "VF2:", "VF"}).Draw(t, "magic")), vfGenSeed(t)...)
		case 2:
			x = []byte(vfGenTextish(t))
		case 3:
			x = c03Zip(t)
		default:
			x = c03GenInput(t)
		}
		if len(x) > 3000 {
			x = x[:3000]
		}
		c.Pool = append(c.Pool, x)
	}
	var exts []vfExt
	if rapid.IntRange(0, 7).Draw(t, "deepchain") == 0 {
		// a chain of extensions, each registered on the previous one, deeper than any built-in path
		depth := rapid.IntRange(5, 13).Draw(t, "chaindepth")
		parent := rapid.SampledFrom([]string{"", "application/zip", "text/plain", "application/vnd.oasis.opendocument.text-template", "application/json"}).Draw(t, "chainroot")
		for i := 0; i < depth; i++ {
			e := vfExt{Parent: parent, Mime: fmt.Sprintf("application/x-verif-%d", i), Ext: fmt.Sprintf(".vf%d", i),
				Pred: vfPred{Kind: rapid.SampledFrom([]string{"always", "always", "minlen", "lenmod"}).Draw(t, "chainpred"), N: 1}}
			exts = append(exts, e)
			ec := e
			c.Steps = append(c.Steps, c14Step{Op: "extend", Ext: &ec})
			parent = e.Mime
		}
		x := c.Pool[0]
		c.Steps = append(c.Steps, c14Step{Op: "probe", X: x, Lim: vfGenLimit(t, len(x))})
		return c
	}
	if rapid.IntRange(0, 59).Draw(t, "deeptree") == 0 {
		// a family 7-10 levels deep that BRANCHES low down: a trunk of `trunk` levels, then two
		// siblings whose descendants are registered alternately; inputs VFa... / VFb... reach the
		// leaves of either branch
		trunkParent := rapid.SampledFrom([]string{"", "text/plain", "application/zip"}).Draw(t, "trunkparent")
		trunk := rapid.IntRange(3, 7).Draw(t, "trunk")
		parent := trunkParent
		k := 0
		add := func(parent string, pred vfPred, tag string) string {
			e := vfExt{Parent: parent, Mime: fmt.Sprintf("application/x-verif-%d%s", k, tag), Ext: fmt.Sprintf(".vf%d%s", k, tag), Pred: pred}
			k++
			ec := e
			c.Steps = append(c.Steps, c14Step{Op: "extend", Ext: &ec})
			return e.Mime
		}
		for i := 0; i < trunk; i++ {
			parent = add(parent, vfPred{Kind: "prefix", Arg: vfB("VF")}, "")
		}
		pa, pb := add(parent, vfPred{Kind: "prefix", Arg: vfB("VFa")}, "a"), add(parent, vfPred{Kind: "prefix", Arg: vfB("VFb")}, "b")
		for i, n := 0, rapid.IntRange(1, 4).Draw(t, "branchdepth"); i < n; i++ {
			pa = add(pa, vfPred{Kind: "prefix", Arg: vfB("VFa")}, "a")
			pb = add(pb, vfPred{Kind: "prefix", Arg: vfB("VFb")}, "b")
		}
		for _, in := range []string{"VFa: text body", "VFb: text body", "VFaPK\x03\x04", "VF: neither branch", "PK\x03\x04VFb"} {
			c.Pool = append(c.Pool, vfB(in))
			c.Steps = append(c.Steps, c14Step{Op: "probe", X: vfB(in), Lim: 0})
		}
		if trunkParent == "application/zip" {
			for _, in := range []string{"PK\x03\x04", "PK\x03\x04VFa"} {
				c.Pool = append(c.Pool, vfB(in))
			}
		}
		return c
	}
	if rapid.IntRange(0, 149).Draw(t, "many") == 0 {
		// hundreds of extensions under one parent; the newest accepting one must win
		parent := rapid.SampledFrom([]string{"", "text/plain", "application/zip"}).Draw(t, "manyparent")
		n := rapid.IntRange(200, 900).Draw(t, "manyn")
		for i := 0; i < n; i++ {
			e := vfExt{Parent: parent, Mime: fmt.Sprintf("application/x-verif-%d", i), Ext: fmt.Sprintf(".vf%d", i), Pred: vfPred{Kind: "never"}}
			if i%97 == 5 || i == n-1 {
				e.Pred = vfPred{Kind: "prefix", Arg: vfB("VF")}
			}
			ec := e
			c.Steps = append(c.Steps, c14Step{Op: "extend", Ext: &ec})
		}
		return c
	}
	ns := rapid.IntRange(1, 8).Draw(t, "nsteps")
	for i := 0; i < ns; i++ {
		if rapid.IntRange(0, 9).Draw(t, "onres") == 0 {
			c.Steps = append(c.Steps, c14Step{Op: "extend-result"})
			continue
		}
		if rapid.IntRange(0, 11).Draw(t, "rerr") == 0 {
			x := c.Pool[rapid.IntRange(0, len(c.Pool)-1).Draw(t, "pi")]
			c.Steps = append(c.Steps, c14Step{Op: "readerr", X: x, Lim: rapid.SampledFrom([]uint32{0, 0, 16, 3072}).Draw(t, "rlim")})
			continue
		}
		if rapid.IntRange(0, 3).Draw(t, "op") > 0 {
			e := vfGenExt(t, len(exts), exts)
			if rapid.IntRange(0, 14).Draw(t, "ctlname") == 0 {
				old := e.Mime
				e.Mime += rapid.SampledFrom([]string{"\r", "\n", "\r\n", ";\tv=1", "\x7f", " "}).Draw(t, "ctl")
				kept := e.Aliases[:0:0]
				for _, al := range e.Aliases {
					if al != old {
						kept = append(kept, al)
					}
				}
				e.Aliases = kept
			}
			exts = append(exts, e)
			c.Steps = append(c.Steps, c14Step{Op: "extend", Ext: &e})
		} else {
			x := c.Pool[rapid.IntRange(0, len(c.Pool)-1).Draw(t, "pi")]
			c.Steps = append(c.Steps, c14Step{Op: "probe", X: x, Lim: vfGenLimit(t, len(x))})
		}
	}
	return c
}

func TestVerif_C14(t *testing.T) {
	defer vfStats.dump()
	vfTreeSnapshot()
	if vfOnlySub("static") {
		vfRunStatic(t, "C14", 64)
	}
	if t.Failed() || !vfOnlySub("machine") {
		return
	}
	vfRun(t, vfSub[c14Case]{Prop: "C14", Name: "machine", Checks: vfN(8000, 3200000), Gen: c14Gen, Check: c14Check,
		Sample: func(c c14Case) any {
			var ops []any
			for _, s := range c.Steps {
				if s.Op == "extend" {
					ops = append(ops, map[string]any{"extend": s.Ext})
				} else {
					ops = append(ops, map[string]any{"probe_len": len(s.X), "limit": s.Lim})
				}
			}
			return map[string]any{"pool_sizes": len(c.Pool), "steps": ops}
		}})
}
