//go:build verif

package mimetype

import (
	"fmt"
	"strings"
	"testing"

	"pgregory.net/rapid"
)

// C15 — equality helpers ignore case, whitespace and parameters and know aliases.

type c15Case struct {
	Node  int    `json:"node"`  // index into root.flatten()
	Name  string `json:"name"`  // undecorated candidate name
	Dec   string `json:"dec"`   // decorated form of Name passed to Is / EqualsAny
	Other string `json:"other"` // second (decorated) operand for EqualsAny
	OName string `json:"other_name"`
}

type c15Result struct {
	Doc   vfB    `json:"doc"`
	Limit uint32 `json:"limit"`
}

var c15Cands []string
var c15Flat []*MIME
var c15Names []string

func c15Init() {
	if c15Flat != nil {
		return
	}
	c15Flat = root.flatten()
	seen := map[string]bool{}
	for _, n := range c15Flat {
		for _, s := range append([]string{n.mime}, n.aliases...) {
			if !seen[s] {
				seen[s] = true
				c15Names = append(c15Names, s)
			}
		}
	}
}

const c15TokChars = "abcdefghijklmnopqrstuvwxyzABCDEFGHIJKLMNOPQRSTUVWXYZ0123456789-_.+!#$&^"

func c15Decorate(t *rapid.T, s string) string {
	b := []byte(s)
	for i := range b {
		if b[i] >= 'a' && b[i] <= 'z' && rapid.IntRange(0, 3).Draw(t, "uc") == 0 {
			b[i] -= 0x20
		}
	}
	ws := []string{"", "", " ", "  ", "\t", "\n", " \r\n ", strings.Repeat(" ", 300), "\u00a0", "\u2003", "\u3000", "\u0085", "\u2028 ", "\v", "\f"}
	out := rapid.SampledFrom(ws).Draw(t, "lws") + string(b)
	np := rapid.IntRange(0, 3).Draw(t, "nparams")
	keys := map[string]bool{}
	for i := 0; i < np; i++ {
		k := rapid.SampledFrom([]string{"charset", "q", "boundary", "version", "a", "Level", "x-p"}).Draw(t, "pk")
		if keys[strings.ToLower(k)] {
			continue
		}
		keys[strings.ToLower(k)] = true
		var v string
		if rapid.Bool().Draw(t, "quoted") {
			v = `"` + rapid.SampledFrom([]string{"utf-8", "a b", "x;y", "text/html", "é", "a\\\"b", "", strings.Repeat("long value ", 30), strings.Repeat("z", 260)}).Draw(t, "qv") + `"`
		} else {
			n := rapid.IntRange(1, 6).Draw(t, "tn")
			var sb strings.Builder
			for j := 0; j < n; j++ {
				sb.WriteByte(c15TokChars[rapid.IntRange(0, len(c15TokChars)-1).Draw(t, "tc")])
			}
			v = sb.String()
		}
		out += rapid.SampledFrom([]string{";", "; ", " ;", " ; "}).Draw(t, "psep") + k + "=" + v
	}
	return out + rapid.SampledFrom(ws).Draw(t, "tws")
}

func c15GenName(t *rapid.T) string {
	c15Init()
	s := rapid.SampledFrom(c15Names).Draw(t, "name")
	switch rapid.IntRange(0, 9).Draw(t, "near") {
	case 0:
		return s + "x"
	case 1:
		return s[:len(s)-1]
	case 2:
		if i := strings.IndexByte(s, '/'); i > 0 {
			return s[i+1:] + "/" + s[:i]
		}
	case 3:
		return "x-" + s
	}
	return s
}

func c15Gen(t *rapid.T) c15Case {
	c15Init()
	var c c15Case
	c.Node = rapid.IntRange(0, len(c15Flat)-1).Draw(t, "node")
	n := c15Flat[c.Node]
	if rapid.Bool().Draw(t, "own") {
		own := append([]string{n.mime}, n.aliases...)
		c.Name = rapid.SampledFrom(own).Draw(t, "ownname")
	} else {
		c.Name = c15GenName(t)
	}
	twin := rapid.IntRange(0, 5).Draw(t, "twin") == 0
	if twin {
		// two names that differ in ONE non-letter token character, the two characters being as
		// close as characters get (one bit apart, neighbours in the table)
		pair := rapid.SampledFrom([][2]string{{"~", "^"}, {"^", "~"}, {"_", "-"}, {"`", "'"}, {"|", "!"}, {"+", "*"}, {"1", "!"}, {"0", "o"}, {".", "-"}, {"#", "$"}}).Draw(t, "twinpair")
		pos := rapid.SampledFrom([]string{"end", "mid"}).Draw(t, "twinpos")
		base := c.Name
		if pos == "mid" && len(base) > 3 {
			k := len(base) - 2
			c.Name, c.OName = base[:k]+pair[0]+base[k:], base[:k]+pair[1]+base[k:]
		} else {
			c.Name, c.OName = base+pair[0]+"1", base+pair[1]+"1"
		}
	}
	c.Dec = c15Decorate(t, c.Name)
	if twin {
		// keep the twin
	} else if rapid.Bool().Draw(t, "same") {
		c.OName = c.Name
	} else {
		c.OName = c15GenName(t)
	}
	c.Other = c15Decorate(t, c.OName)
	return c
}

func c15Check(c c15Case) vfResult {
	c15Init()
	var r vfResult
	n := c15Flat[c.Node]
	low := strings.ToLower(c.Name)
	want := low == n.mime
	for _, a := range n.aliases {
		if a == low {
			want = true
		}
	}
	if got := n.Is(c.Dec); got != want {
		r.Err = fmt.Errorf("node %s (aliases %v): Is(%q) = %v, want %v", n.mime, n.aliases, c.Dec, got, want)
		return r
	}
	wantEq := strings.ToLower(c.Name) == strings.ToLower(c.OName)
	// a caller keeps ONE candidate slice and overwrites its elements between calls
	if c15Cands == nil {
		c15Cands = make([]string, 3)
	}
	c15Cands[0], c15Cands[1], c15Cands[2] = "zz/zz", c.Other, "yy/yy; q=1"
	if got := EqualsAny(c.Dec, c15Cands...); got != wantEq {
		r.Err = fmt.Errorf("EqualsAny(%q, <a candidate slice the caller re-uses, now holding %q>) = %v, want %v", c.Dec, c15Cands, got, wantEq)
		return r
	}
	if got := EqualsAny(c.Dec, c.Other); got != wantEq {
		r.Err = fmt.Errorf("EqualsAny(%q, %q) = %v, want %v", c.Dec, c.Other, got, wantEq)
		return r
	}
	if got := EqualsAny(c.Dec, "zz/zz", c.Other); got != wantEq {
		r.Err = fmt.Errorf("EqualsAny(%q, zz/zz, %q) = %v, want %v", c.Dec, c.Other, got, wantEq)
		return r
	}
	c15Cands[0], c15Cands[1], c15Cands[2] = c.Other, "zz/zz", "xx/xx"
	if got := EqualsAny(c.Dec, c15Cands...); got != wantEq {
		r.Err = fmt.Errorf("EqualsAny(%q, <re-used candidate slice, now %q>) = %v, want %v", c.Dec, c15Cands, got, wantEq)
		return r
	}
	changed := c.Dec != c.Name
	r.Nontrivial = changed && (strings.Contains(c.Dec, ";") || strings.ToLower(c.Dec) != c.Dec)
	if want {
		r.Labels = append(r.Labels, "is-true")
	} else {
		r.Labels = append(r.Labels, "is-false")
	}
	if wantEq {
		r.Labels = append(r.Labels, "equals-true")
	} else {
		r.Labels = append(r.Labels, "equals-false")
	}
	if strings.Contains(c.Dec, ";") {
		r.Labels = append(r.Labels, "with-params")
	}
	r.Hash = vfHash([]byte(c.Dec), []byte(c.Other), vfHashU(uint64(c.Node)))
	return r
}

// results: every detection result d satisfies d.Is(d.String()), EqualsAny(d.String(), d.String())
// and Lookup(bare type).Is(d.String()).
func c15ResultCheck(c c15Result) vfResult {
	var r vfResult
	d := vfDetectAt(c.Doc, c.Limit)
	s := d.String()
	if !d.Is(s) {
		r.Err = fmt.Errorf("d.Is(d.String()) is false for %q (doc %s)", s, vfQ(c.Doc))
		return r
	}
	if !EqualsAny(s, s) {
		r.Err = fmt.Errorf("EqualsAny(d.String(), d.String()) is false for %q (doc %s)", s, vfQ(c.Doc))
		return r
	}
	l := Lookup(vfBare(s))
	if l == nil {
		r.Err = fmt.Errorf("Lookup(%q) is nil for result %q", vfBare(s), s)
		return r
	}
	if !l.Is(s) {
		r.Err = fmt.Errorf("Lookup(%q).Is(%q) is false", vfBare(s), s)
		return r
	}
	for p := d.Parent(); p != nil; p = p.Parent() {
		if !p.Is(p.String()) {
			r.Err = fmt.Errorf("ancestor %q is not itself", p.String())
			return r
		}
		// an ancestor stands for a registered format: it answers to that format's aliases too
		if reg := Lookup(p.String()); reg != nil && reg.Extension() == p.Extension() {
			for _, a := range reg.aliases {
				if !p.Is(a) || !p.Is("  "+strings.ToUpper(a)+"; q=1") {
					r.Err = fmt.Errorf("ancestor %q of result %q does not answer to the registered alias %q", p.String(), s, a)
					return r
				}
			}
		}
	}
	if reg := Lookup(vfBare(s)); reg != nil && reg.Extension() == d.Extension() {
		for _, a := range reg.aliases {
			if !d.Is(a) {
				r.Err = fmt.Errorf("result %q does not answer to the registered alias %q", s, a)
				return r
			}
		}
	}
	r.Nontrivial = strings.Contains(s, ";")
	if strings.Contains(s, "\"") || strings.Contains(s, "*=") {
		r.Labels = append(r.Labels, "result-quoted-or-rfc2231")
	}
	r.Hash = vfHash(c.Doc, vfHashU(uint64(c.Limit)))
	return r
}


// ---- extended: names registered through Extend resolve as well, whatever Lookups came before

type c15Ext struct {
	Pre  []string `json:"lookups_before"`
	Exts []vfExt  `json:"exts"`
	Mid  []string `json:"lookups_between"` // one Lookup after each Extend
}

func c15ExtCheck(c c15Ext) vfResult {
	var r vfResult
	vfTreeSnapshot()
	vfTreeRestore()
	defer vfTreeRestore()
	for _, n := range c.Pre {
		_ = Lookup(n)
	}
	shadow := vfShadowFrom(root, nil)
	for i, e := range c.Exts {
		if e.Parent != "" && shadow.lookup(e.Parent) == nil {
			return vfResult{Skip: "extend-parent-unknown"}
		}
		if err := e.apply(); err != nil {
			r.Err = fmt.Errorf("extension %d: %v", i, err)
			return r
		}
		_ = shadow.extend(e)
		if i < len(c.Mid) {
			_ = Lookup(c.Mid[i])
		}
	}
	check := func(name string) error {
		want := shadow.lookup(name)
		l := Lookup(name)
		if l == nil {
			return fmt.Errorf("Lookup(%q) is nil after registering %d extension(s) (lookups before: %q)", name, len(c.Exts), c.Pre)
		}
		if !l.Is(name) {
			return fmt.Errorf("Lookup(%q) = %s which is not %q", name, l.String(), name)
		}
		if want != nil && (l.String() != want.mime || l.Extension() != want.ext) {
			return fmt.Errorf("Lookup(%q) = %s %s, the newest registration is %s %s", name, l.String(), l.Extension(), want.mime, want.ext)
		}
		return nil
	}
	for _, e := range c.Exts {
		for _, n := range append([]string{e.Mime}, e.Aliases...) {
			if err := check(n); err != nil {
				r.Err = err
				return r
			}
			if !Lookup(n).Is("  " + strings.ToUpper(n) + " ; q=1") {
				r.Err = fmt.Errorf("Lookup(%q).Is(decorated %q) is false", n, n)
				return r
			}
		}
	}
	for _, n := range c15Names {
		if err := check(n); err != nil {
			r.Err = err
			return r
		}
	}
	r.Nontrivial = len(c.Pre) > 0 && len(c.Exts) > 0
	for _, e := range c.Exts {
		if len(e.Aliases) > 0 {
			r.Labels = append(r.Labels, "extension-with-aliases")
			break
		}
	}
	r.Hash = vfHash([]byte(fmt.Sprint(c)))
	return r
}

func c15ExtGen(t *rapid.T) c15Ext {
	c15Init()
	var c c15Ext
	c.Pre = rapid.SliceOfN(rapid.SampledFrom(append([]string{"does/not-exist", "application/x-verif-0", "application/x-verif-alias-0-0"}, c15Names[:40]...)), 0, 3).Draw(t, "pre")
	for i, n := 0, rapid.IntRange(1, 4).Draw(t, "next"); i < n; i++ {
		c.Exts = append(c.Exts, vfGenExt(t, i, c.Exts))
		c.Mid = append(c.Mid, rapid.SampledFrom([]string{"text/plain", "application/x-verif-0", "application/x-verif-alias-1-0", "nope/none"}).Draw(t, "mid"))
	}
	return c
}

func TestVerif_C15(t *testing.T) {
	defer vfStats.dump()
	vfStats.Property = "C15"
	c15Init()
	if vfOnlySub("names") && !vfReplayMode() && vfShard() == 0 {
		// every registered type and alias resolves through Lookup to a format that Is that name
		for _, name := range c15Names {
			l := Lookup(name)
			var r vfResult
			r.Nontrivial = true
			r.Labels = []string{"registered-name"}
			r.Hash = vfHash([]byte("name:" + name))
			if l == nil {
				r.Err = fmt.Errorf("Lookup(%q) is nil", name)
			} else if !l.Is(name) {
				r.Err = fmt.Errorf("Lookup(%q) = %s which is not %q", name, l.String(), name)
			}
			vfStats.record(r, func() any { return map[string]any{"sub": "names", "name": name} })
			if r.Err != nil {
				vfEnumFail(t, "C15", "names", name, r.Err)
				return
			}
		}
		vfStats.Subchecks["names"] = fmt.Sprintf("all %d registered names and aliases", len(c15Names))
	}
	if vfOnlySub("static") {
		vfRunStatic(t, "C15", 48)
	}
	if t.Failed() {
		return
	}
	if vfOnlySub("dec") {
		vfRun(t, vfSub[c15Case]{Prop: "C15", Name: "dec", Checks: vfN(200000, 16000000), Gen: c15Gen, Check: c15Check})
	}
	if t.Failed() {
		return
	}
	if vfOnlySub("extended") {
		vfRun(t, vfSub[c15Ext]{Prop: "C15", Name: "extended", Checks: vfN(20000, 3000000), Gen: c15ExtGen, Check: c15ExtCheck})
	}
	if t.Failed() {
		return
	}
	if vfOnlySub("results") {
		vfRun(t, vfSub[c15Result]{Prop: "C15", Name: "results", Checks: vfN(60000, 3000000),
			Gen: func(t *rapid.T) c15Result {
				c := c02Gen(t)
				return c15Result{Doc: c.Doc, Limit: c.Limit}
			}, Check: c15ResultCheck})
	}
}
