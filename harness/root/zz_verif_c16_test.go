//go:build verif

package mimetype

import (
	"fmt"
	"runtime"
	"runtime/debug"
	"strings"
	"sync"
	"sync/atomic"
	"testing"

	"github.com/gabriel-vasile/mimetype/internal/magic"
)

// C16 — nesting bombs cannot exhaust the stack.
//
// The shard runs with debug.SetMaxStack(64 MiB). Every case is journaled before it runs:
// a Go stack overflow is fatal and cannot be recovered, so the driver turns the journal of a
// shard that died with "goroutine stack exceeds" into the replay file of a VIOLATION.
// Verdict oracle: bombs with >= 1,000,000 levels are never JSON-family; properly closed
// nestings of depth <= 4096 are (shared with C08). The observed boundary is recorded only.

type c16Case struct {
	Shape  int    `json:"shape"` // 0 '[' , 1 '{"k":' , 2 alternating
	Depth  int    `json:"depth"`
	Pad    int    `json:"pad"`    // spaces between levels
	Closed bool   `json:"closed"` // properly closed (with a scalar leaf) or left open
	Limit  uint32 `json:"limit"`
	Via    string `json:"via"` // detect | json | geo | ndjson
	// Pre: index into c16Pres: a complete first element (a string with escapes, ...) precedes the nest
	Pre int `json:"pre,omitempty"`
	// SameAsPad0: also require the verdict to equal the verdict of the same nesting without padding
	SameAsPad0 bool `json:"same_as_pad0,omitempty"`
	// Primer: the case that ran immediately before this one in the same process (one level);
	// a replay runs it first, so two-step histories through pooled parser state reproduce.
	Primer *c16Case `json:"primer,omitempty"`
}

// c16Pres: the outermost array / object starts with a complete member before the nest begins.
// Index 1 is the plain reference; every other one must get the same verdict as index 1.
var c16Pres = []string{"", "[0,", "[\"\\\\\",", "{\"p\":\"C:\\\\tmp\\\\\",\"d\":", "[\"a\\\"b\",", "[\"\\u005c\",", "[\" \\\\\\\\ \",", "[\"]]]]\",", "[\"[[[[\\\"\",", "[ \"\\\\\" ,\n"}

func c16PreClose(pre string) string {
	if pre == "" {
		return ""
	}
	if pre[0] == '{' {
		return "}"
	}
	return "]"
}

// shapes 6-8 are WIDE, not deep: one container with Depth members (nesting 2). Nothing in
// them may make recursion (and with it the stack) grow with their size.
func c16Wide(shape int) bool { return shape >= 6 }

func c16Build(c c16Case) []byte {
	if c.Pre > 0 && c.Pre < len(c16Pres) {
		inner := c
		inner.Pre = 0
		b := append([]byte(c16Pres[c.Pre]), c16Build(inner)...)
		if c.Closed {
			b = append(b, c16PreClose(c16Pres[c.Pre])...)
		}
		return b
	}
	pad := strings.Repeat(" ", c.Pad)
	if c.Shape >= 9 {
		// ONE token of Depth units inside a flat array
		unit := []string{"\\n", "\\u00e9", " ", "7", "ab"}[c.Shape-9]
		open, closeTok := "[\"", "\"]"
		switch c.Shape {
		case 11:
			open, closeTok = "[1,", "2]"
		case 12:
			open, closeTok = "[1", "]"
		}
		var sb strings.Builder
		sb.Grow(c.Depth*len(unit) + 8)
		sb.WriteString(open)
		for i := 0; i < c.Depth; i++ {
			sb.WriteString(unit)
		}
		if c.Closed {
			sb.WriteString(closeTok)
		}
		return []byte(sb.String())
	}
	if c16Wide(c.Shape) {
		unit := []string{"\"k\":{}," + pad, "[]," + pad, "\"k\":1," + pad}[c.Shape-6]
		open, last := "{", "\"z\":1}"
		if c.Shape == 7 {
			open, last = "[", "1]"
		}
		var sb strings.Builder
		sb.Grow(c.Depth*len(unit) + 16)
		sb.WriteString(open)
		for i := 1; i < c.Depth; i++ {
			sb.WriteString(unit)
		}
		if c.Closed {
			sb.WriteString(last)
		}
		return []byte(sb.String())
	}
	if c.Shape >= 3 {
		// a COMPLETE sibling precedes the nested container at every level
		unit := []string{"[0," + pad, "[[]," + pad, "{\"a\":1," + pad + "\"k\":" + pad}[c.Shape-3]
		closer := []string{"]", "]", "}"}[c.Shape-3]
		var sb strings.Builder
		sb.Grow(c.Depth * (len(unit) + 1))
		for i := 0; i < c.Depth; i++ {
			sb.WriteString(unit)
		}
		if c.Closed {
			sb.WriteString("1")
			for i := 0; i < c.Depth; i++ {
				sb.WriteString(closer)
			}
		}
		return []byte(sb.String())
	}
	if c.Closed {
		return []byte(jDeepDoc(c.Shape, c.Depth, "1", pad))
	}
	var sb strings.Builder
	sb.Grow(c.Depth * (6 + c.Pad))
	for i := 0; i < c.Depth; i++ {
		if c.Shape == 1 || (c.Shape == 2 && i%2 == 1) {
			sb.WriteString("{" + pad + "\"k\":" + pad)
		} else {
			sb.WriteString("[" + pad)
		}
	}
	return []byte(sb.String())
}

var c16MaxStackGrowth int64
var c16Shared []byte

func c16Run(c c16Case, x []byte) bool {
	switch c.Via {
	case "detect":
		m := vfDetectAt(x, c.Limit)
		return c08IsJSONFamily(m) || vfInFamily(m, "application/x-ndjson")
	case "json":
		return magic.JSON(x, c.Limit)
	case "geo":
		return magic.GeoJSON(x, c.Limit) || magic.HAR(x, c.Limit) || magic.GLTF(x, c.Limit)
	case "ndjson":
		return magic.NdJSON(append(append([]byte("[1]\n"), x...), "\n[2]\n"...), c.Limit)
	}
	return false
}

func c16Check(c c16Case) vfResult {
	var r vfResult
	vfJournal("C16", "bombs", c)
	x := c16Build(c)
	if c.Limit == 1 || c.Limit == 2 { // a large limit that truncates: the whole input, or its first half
		c.Limit = uint32(len(x) / int(c.Limit))
		if c.Limit == 0 {
			c.Limit = 1
		}
	}
	if c.Primer != nil && vfReplayMode() {
		// no garbage collection between primer and bomb: a GC would empty the parser pool and
		// with it the state the primer left behind
		p := *c.Primer
		p.Primer = nil
		px := c16Build(p)
		old := debug.SetGCPercent(-1)
		defer debug.SetGCPercent(old)
		c16Run(p, px)
	}
	var ms0, ms1 runtime.MemStats
	runtime.ReadMemStats(&ms0)
	isJSON := c16Run(c, x)
	runtime.ReadMemStats(&ms1)
	r.Labels = append(r.Labels, fmt.Sprintf("via-%s", c.Via), fmt.Sprintf("json=%v", isJSON))
	nesting := c.Depth
	if c16Wide(c.Shape) {
		nesting = 2
		r.Labels = append(r.Labels, "wide")
	}
	if nesting >= 1000000 && isJSON {
		r.Err = fmt.Errorf("a nesting bomb of depth %d (shape %d, closed=%v, limit %d, via %s) is reported as JSON", c.Depth, c.Shape, c.Closed, c.Limit, c.Via)
	}
	if nesting <= 4096 && c.Closed && c.Via != "geo" && !isJSON && (c.Limit == 0 || int64(c.Limit) >= int64(len(x))) {
		r.Err = fmt.Errorf("properly closed nesting of depth %d (shape %d, pad %d, via %s) is not reported as JSON", c.Depth, c.Shape, c.Pad, c.Via)
	}
	r.Nontrivial = c.Depth > 4096
	if c.Pre > 1 && r.Err == nil {
		// what the first member looks like is irrelevant to how deep the second one nests
		c1 := c
		c1.Pre, c1.Primer = 1, nil
		if base := c16Run(c1, c16Build(c1)); base != isJSON {
			r.Err = fmt.Errorf("nesting of depth %d (shape %d, closed=%v, via %s, limit %d) behind the complete first member %s: json=%v; behind the first member [0, json=%v - the depth cap depends on what precedes the nest", c.Depth, c.Shape, c.Closed, c.Via, c.Limit, vfQ([]byte(c16Pres[c.Pre])), isJSON, base)
		}
		r.Labels = append(r.Labels, "first-member-independence")
	}
	if c.Via == "detect" && r.Err == nil && len(x) < 3<<20 && c.Limit == 0 {
		// the caller's buffer held a flat document of the same length just before
		if cap(c16Shared) < len(x) {
			c16Shared = make([]byte, len(x)+len(x)/2)
		}
		sh := c16Shared[:len(x)]
		for i := range sh {
			sh[i] = ' '
		}
		copy(sh, "[1,2,3]")
		flat := vfDetectAt(sh, c.Limit)
		copy(sh, x)
		again := vfDetectAt(sh, c.Limit)
		if againJSON := c08IsJSONFamily(again) || vfInFamily(again, "application/x-ndjson"); againJSON != isJSON {
			r.Err = fmt.Errorf("nesting of depth %d (shape %d, closed=%v): detected first in a slice of its own json=%v; then in a caller buffer that held a flat document of the same length just before (reported as %s) it is %s", c.Depth, c.Shape, c.Closed, isJSON, vfChainStr(flat), vfChainStr(again))
		}
		r.Labels = append(r.Labels, "reused-buffer")
	}
	if c.SameAsPad0 && r.Err == nil && c.Pad > 0 {
		// the cap is fixed: white space between the levels (a longer input) changes nothing
		c0 := c
		c0.Pad, c0.SameAsPad0, c0.Primer = 0, false, nil
		if base := c16Run(c0, c16Build(c0)); base != isJSON {
			r.Err = fmt.Errorf("nesting of depth %d (shape %d, via %s, limit %d): with %d spaces between the levels (%d bytes) json=%v, without them (%d bytes) json=%v - the depth cap depends on the input size", c.Depth, c.Shape, c.Via, c.Limit, c.Pad, len(x), isJSON, len(c16Build(c0)), base)
		}
		r.Labels = append(r.Labels, "size-independence")
	}
	if ms1.StackInuse > ms0.StackInuse {
		if d := int64(ms1.StackInuse - ms0.StackInuse); d > c16MaxStackGrowth {
			c16MaxStackGrowth = d
		}
	}
	hc := c
	hc.Primer = nil
	r.Hash = vfHash([]byte(fmt.Sprint(hc)))
	return r
}

func TestVerif_C16(t *testing.T) {
	defer vfStats.dump()
	vfStats.Property = "C16"
	debug.SetMaxStack(64 << 20)
	vfRun(t, vfSub[c16Case]{Prop: "C16", Name: "bombs", Check: c16Check})
	if vfReplayMode() || t.Failed() {
		return
	}
	depths := []int{4090, 4095, 4096, 4097, 4098, 4100, 10000, 16384, 100000, 1000000, 2000000}
	if vfThorough() {
		depths = append(depths, 5000, 65536, 300000, 5000000, 10000000, 30000000)
	}
	sh, nsh := vfShard(), vfNShards()
	idx := 0
	boundary := map[string]int{}
	// a primer that leaves the pooled parser more than 128 levels deep when it stops
	prev := &c16Case{Shape: 0, Depth: 200, Closed: false, Limit: 0, Via: "json"}
	c16Run(*prev, c16Build(*prev))
	for _, d := range depths {
		for shape := 0; shape < 6; shape++ {
			for _, closed := range []bool{true, false} {
				for _, lim := range []uint32{0, 0xffffffff, 1} { // 1 stands for "limit = len" (a large limit that truncates)
					for _, pad := range []int{0, 1, 3} {
						if d >= 5000000 && (pad > 0 || shape >= 2) {
							continue
						}
						if shape >= 3 && (pad > 0 || (d != 4097 && d != 100000 && d != 1000000) || lim == 0xffffffff) {
							continue // sibling-first shapes: a reduced grid
						}
						for _, via := range []string{"detect", "json", "geo", "ndjson"} {
							if d >= 5000000 && via == "ndjson" {
								continue
							}
							idx++
							if idx%nsh != sh {
								continue
							}
							c := c16Case{Shape: shape, Depth: d, Pad: pad, Closed: closed, Limit: lim, Via: via, Primer: prev}
							r := c16Check(c)
							pc := c
							pc.Primer = nil
							prev = &pc
							vfStats.record(r, func() any { return c })
							if r.Err != nil {
								vfEnumFail(t, "C16", "bombs", c, r.Err)
								return
							}
							if closed && via == "json" {
								k := fmt.Sprintf("shape%d", shape)
								for _, l := range r.Labels {
									if l == "json=true" && d > boundary[k] {
										boundary[k] = d
									}
								}
							}
						}
					}
				}
			}
		}
	}
	// the cap does not move with the size of the input: the same nesting, 4-9 MB long
	for i, d := range []int{4097, 4300, 6000, 9000, 20000, 3000, 4096, 12000} {
		if i%nsh != sh || t.Failed() {
			continue
		}
		for shape := 0; shape < 3; shape++ {
			for _, via := range []string{"json", "detect"} {
				c := c16Case{Shape: shape, Depth: d, Pad: 4500000/d + 1, Closed: true, Limit: 0, Via: via, SameAsPad0: true}
				if shape == 0 {
					c.Pad *= 2
				}
				r := c16Check(c)
				vfStats.record(r, func() any { return c })
				if r.Err != nil {
					vfEnumFail(t, "C16", "bombs", c, r.Err)
					return
				}
			}
		}
	}
	// a complete first member of every awkward spelling, then the nest
	for pi := 2; pi < len(c16Pres); pi++ {
		if pi%nsh != sh || t.Failed() {
			continue
		}
		for _, d := range []int{4000, 4097, 5000, 200000, 1000000} {
			for shape := 0; shape < 3; shape++ {
				for _, closed := range []bool{true, false} {
					for _, via := range []string{"json", "detect"} {
						c := c16Case{Shape: shape, Depth: d, Closed: closed, Limit: 0, Via: via, Pre: pi}
						r := c16Check(c)
						vfStats.record(r, func() any { return c })
						if r.Err != nil {
							vfEnumFail(t, "C16", "bombs", c, r.Err)
							return
						}
					}
				}
			}
		}
	}
	// wide containers: 300000 - 3000000 members in ONE object / array
	for i, n := range []int{300000, 1000000, 3000000, 300000, 1000000, 2000000} {
		if (i+3)%nsh != sh || t.Failed() {
			continue
		}
		for shape := 6; shape <= 13; shape++ {
			for _, closed := range []bool{true, false} {
				c := c16Case{Shape: shape, Depth: n, Closed: closed, Limit: []uint32{0, 1}[i/3], Via: []string{"json", "detect", "geo"}[i%3]}
				r := c16Check(c)
				r.Nontrivial = true
				vfStats.record(r, func() any { return c })
				if r.Err != nil {
					vfEnumFail(t, "C16", "bombs", c, r.Err)
					return
				}
			}
		}
	}
	if vfShard() == 0 && !t.Failed() {
		// many detections in flight at once (more than any fixed-size free list of parsers): a nest
		// of depth 5000 behind a long complete prefix must never be reported as JSON
		x := append([]byte("["+strings.Repeat("[1,2,3],", 60000)), strings.Repeat("[", 5000)...)
		x = append(x, "1"+strings.Repeat("]", 5001)...)
		var wg sync.WaitGroup
		var bad int64
		startc := make(chan struct{})
		for g := 0; g < 300; g++ {
			wg.Add(1)
			go func() {
				defer wg.Done()
				<-startc
				if magic.JSON(x, 0) {
					atomic.AddInt64(&bad, 1)
				}
			}()
		}
		close(startc)
		wg.Wait()
		for i := 0; i < 20; i++ {
			if magic.JSON(x, 0) {
				bad++
			}
		}
		var r vfResult
		r.Nontrivial, r.Labels, r.Hash = true, []string{"crowd-of-300"}, vfHash([]byte("crowd"))
		if bad > 0 {
			r.Err = fmt.Errorf("a nesting of depth 5000 (behind a 480 KB complete prefix) was reported as JSON by %d of 320 detections when 300 ran at the same time", bad)
		}
		vfStats.record(r, func() any { return map[string]any{"sub": "crowd", "goroutines": 300, "len": len(x)} })
		if r.Err != nil {
			vfEnumFail(t, "C16", "bombs", c16Case{Shape: 0, Depth: 5000, Closed: true, Via: "json"}, r.Err)
			return
		}
	}
	vfStats.note("shard %d: largest growth of runtime StackInuse around a single case: %d bytes", sh, c16MaxStackGrowth)
	vfStats.Subchecks["bombs"] = fmt.Sprintf("%d cases enumerated (depths %v x 3 shapes x closed/open x limits {0,2^32-1} x pad 0-2 x via detect/json/geo+har+gltf/ndjson), max stack 64 MiB; deepest closed nesting still accepted by magic.JSON in this shard: %v", idx, depths, boundary)
}
