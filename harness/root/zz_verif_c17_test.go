//go:build verif

package mimetype

import (
	"bytes"
	"fmt"
	"sort"
	"strings"
	"testing"

	"pgregory.net/rapid"
)

// C17 — raising the read limit never loses a binary identification.
//
// For an input x the verdict nonText(L) (Parent() != nil and no text/plain in the chain) is
// computed for every limit L in 1..len+1 and for L = 0 (exhaustively when len <= 600, on a
// boundary-biased sample beyond). Oracle: nonText(L) => nonText(L') for all L < L' and L' = 0.

type c17Case struct {
	X    vfB      `json:"x"`
	Pair []uint32 `json:"pair,omitempty"` // replay: only this (L, L') pair
}

func c17NonText(m *MIME) bool {
	return m.Parent() != nil && !vfInFamily(m, "text/plain")
}

var c17Boundaries = []int{1, 2, 3, 4, 5, 6, 8, 11, 12, 13, 16, 20, 23, 24, 25, 30, 35, 36, 37, 44, 60, 67, 68, 69, 111, 112, 113, 131, 132, 133, 257, 511, 512, 513, 519, 520, 521, 1151, 1152, 1153, 2047, 2048, 2049, 3071, 3072, 3073, 4095, 4096, 4097}

func c17Check(c c17Case) vfResult {
	var r vfResult
	x := []byte(c.X)
	n := len(x)
	var limits []int
	if len(c.Pair) == 2 {
		limits = []int{int(c.Pair[0]), int(c.Pair[1])}
	} else if n <= 600 {
		for L := 1; L <= n+1; L++ {
			limits = append(limits, L)
		}
		limits = append(limits, 0)
	} else {
		seen := map[int]bool{}
		add := func(L int) {
			if L >= 1 && L <= n+1 && !seen[L] {
				seen[L] = true
				limits = append(limits, L)
			}
		}
		for _, b := range c17Boundaries {
			add(b)
		}
		stride := 37
		if n > 20000 {
			stride = n / 150
		}
		for L := 1; L <= n+1; L += stride {
			add(L)
		}
		for _, b := range []int{65535, 65536, 65537, 1 << 20, 1<<20 + 1} {
			add(b)
		}
		add(n - 1)
		add(n)
		add(n + 1)
		sort.Ints(limits)
		limits = append(limits, 0)
	}
	firstNT := -1
	var firstChain string
	for li, L := range limits {
		m := vfDetectAt(x, uint32(L))
		nt := c17NonText(m)
		r.N++
		// the reader entry point must tell the same story (every 5th limit, and the boundaries)
		if li%5 == 0 || L == 0 || L >= n {
			SetLimit(uint32(L))
			mr, err := DetectReader(bytes.NewReader(x))
			SetLimit(defaultLimit)
			r.N++
			if err != nil || c17NonText(mr) != nt {
				r.Err = fmt.Errorf("at limit %d Detect says %s but DetectReader says %s (err %v); x=%s", L, vfChainStr(m), vfChainStr(mr), err, vfQ(x))
				return r
			}
			if err := vfRoutes(x, uint32(L), m); err != nil {
				r.Err = fmt.Errorf("at limit %d: %v; x=%s", L, err, vfQ(x))
				return r
			}
		}
		if nt && firstNT < 0 {
			firstNT = L
			firstChain = vfChainStr(m)
			if L != 0 && L < n {
				r.Nontrivial = true
			}
		}
		if !nt && firstNT >= 0 {
			r.Err = fmt.Errorf("at limit %d the input is identified as %s, at the larger limit %d it is %s; x=%s", firstNT, firstChain, L, vfChainStr(m), vfQ(x))
			c.Pair = []uint32{uint32(firstNT), uint32(L)}
			return r
		}
	}
	if firstNT >= 0 {
		r.Labels = append(r.Labels, "binary-at-some-limit")
		if firstNT > 4 {
			r.Labels = append(r.Labels, "first-identified-beyond-4-bytes")
		}
	} else {
		r.Labels = append(r.Labels, "never-binary")
	}
	r.Hash = vfHash(x)
	return r
}

// literals that signature checks look for anywhere in (a window of) the header, including the
// negative ones (gpkg names exclude tar, Access headers exclude ttf)
var c17Markers = []string{"/gpkg-1\x00", "x/gpkg-1\x00", "Standard Jet DB", "Standard ACE DB", "BOOKMOBI", "DICM", "acTL", "GPAT", "GIMP", "<svg", "ftyp", "PK\x03\x04", "META-INF/MANIFEST.MF", "word/", "\x1e", "LP",
	"P\x00o\x00w\x00e\x00r\x00P\x00o\x00i\x00n\x00t\x00 D\x00o\x00c\x00u\x00m\x00e\x00n\x00t", "W\x00k\x00s\x00S\x00S\x00W\x00o\x00r\x00k\x00B\x00o\x00o\x00k", "debian-binary", "WEBP", "4500", "mimetypeapplication/epub+zip"}

func c17Gen(t *rapid.T) c17Case {
	var x []byte
	switch rapid.IntRange(0, 11).Draw(t, "k") {
	case 11: // fixed-size packets: a sync byte every 188 (or 192 / 204) bytes, good for a while, then one byte lost
		size := rapid.SampledFrom([]int{188, 188, 192, 204}).Draw(t, "pktsize")
		good := rapid.IntRange(3, 25).Draw(t, "goodpkts")
		sync := rapid.SampledFrom([]byte{0x47, 0x47, 'G'}).Draw(t, "sync")
		for i := 0; i < good+6; i++ {
			pkt := make([]byte, size)
			pkt[0] = sync
			pkt[1], pkt[2] = byte(rapid.IntRange(0, 0x1f).Draw(t, "pidhi")), byte(i)
			pkt[3] = 0x10 | byte(i&0x0f)
			if rapid.Bool().Draw(t, "textpayload") {
				copy(pkt[4:], strings.Repeat("A 1 record of text ", 12))
			}
			if i == good {
				pkt = pkt[1:] // the byte that was lost
			}
			x = append(x, pkt...)
		}
	case 10: // anything, then a 128-byte ID3v1 block ("TAG", title, artist, album, a four-digit year, comment, genre)
		x = vfGenAnyInput(t)
		if len(x) > 420 {
			x = x[:420]
		}
		if rapid.Bool().Draw(t, "zeros") {
			x = make([]byte, rapid.IntRange(0, 420).Draw(t, "zn"))
		}
		tag := make([]byte, 128)
		copy(tag, "TAG")
		copy(tag[3:], "Title of the song")
		copy(tag[33:], "Artist")
		copy(tag[63:], "Album")
		copy(tag[93:], rapid.SampledFrom([]string{"1999", "2024", "0000", "19x9", "\x00\x00\x00\x00"}).Draw(t, "year"))
		copy(tag[97:], "comment")
		tag[127] = byte(rapid.IntRange(0, 255).Draw(t, "genre"))
		x = append(x, tag...)
		x = append(x, rapid.SampledFrom([]string{"", "\x00", "trailing bytes after the tag"}).Draw(t, "aftertag")...)
	case 9: // EBML header (Matroska / WebM) assembled from elements: Void padding of any size (it may hold
		// stale bytes that look like a DocType element), the DocType before or after it
		vint := func(n int) []byte {
			if n < 127 && rapid.Bool().Draw(t, "shortvint") {
				return []byte{0x80 | byte(n)}
			}
			if n < 16383 && rapid.Bool().Draw(t, "vint2") {
				return []byte{0x40 | byte(n>>8), byte(n)}
			}
			return []byte{0x01, 0, 0, 0, 0, byte(n >> 16), byte(n >> 8), byte(n)}
		}
		doctype := func(name string) []byte { return append(append([]byte{0x42, 0x82}, vint(len(name))...), name...) }
		var els [][]byte
		for i, n := 0, rapid.IntRange(1, 6).Draw(t, "nels"); i < n; i++ {
			switch rapid.IntRange(0, 4).Draw(t, "el") {
			case 0:
				els = append(els, []byte{0x42, 0x86, 0x81, 0x01}, []byte{0x42, 0xF7, 0x81, 0x01})
			case 1:
				els = append(els, []byte{0x42, 0xF2, 0x81, 0x04}, []byte{0x42, 0xF3, 0x81, 0x08}, []byte{0x42, 0x87, 0x81, 0x02})
			case 2, 3:
				sz := rapid.SampledFrom([]int{0, 10, 500, 1000, 2990, 3060, 4000, 4080, 5000}).Draw(t, "voidsize")
				pay := make([]byte, sz)
				if sz > 12 && rapid.Bool().Draw(t, "stale") {
					copy(pay[rapid.IntRange(0, sz-12).Draw(t, "stalepos"):], doctype(rapid.SampledFrom([]string{"webm", "matroska"}).Draw(t, "staletype")))
				}
				els = append(els, append(append([]byte{0xEC}, vint(sz)...), pay...))
			default:
				els = append(els, doctype(rapid.SampledFrom([]string{"webm", "matroska", "xyz1", "", "webm\x00", "matroska-v5"}).Draw(t, "doctype")))
			}
		}
		var body []byte
		for _, e := range els {
			body = append(body, e...)
		}
		x = append([]byte{0x1A, 0x45, 0xDF, 0xA3}, vint(len(body))...)
		x = append(x, body...)
		x = append(x, 0x18, 0x53, 0x80, 0x67, 0x01, 0xFF, 0xFF, 0xFF, 0xFF, 0xFF, 0xFF, 0xFF)
		x = append(x, rapid.SliceOfN(rapid.Byte(), 0, 40).Draw(t, "segment")...)
	case 0:
		x = vfGenSeed(t)
	case 1, 2:
		x = vfMutate(t, vfGenSeed(t), 3)
	case 3: // seed + tail: short random, or long (zeros / repeated pattern / text / another seed) so that
		// checks which look far into the header see something there
		x = vfGenSeed(t)
		switch rapid.IntRange(0, 4).Draw(t, "tailkind") {
		case 0:
			x = append(x, rapid.SliceOfN(rapid.Byte(), 0, 80).Draw(t, "tail")...)
		case 1:
			x = append(x, make([]byte, rapid.IntRange(1, 4200).Draw(t, "zeros"))...)
		case 2:
			pat := rapid.SliceOfN(rapid.Byte(), 1, 6).Draw(t, "pat")
			x = append(x, bytes.Repeat(pat, rapid.IntRange(1, 900).Draw(t, "reps"))...)
		case 3:
			x = append(x, strings.Repeat(rapid.SampledFrom([]string{"lorem ipsum ", "a,b\n", "{\"k\":1}\n", "\xff\xfb\x90\x00", "<a>"}).Draw(t, "txt"), rapid.IntRange(1, 400).Draw(t, "treps"))...)
		default:
			x = append(x, make([]byte, rapid.IntRange(0, 300).Draw(t, "gap"))...)
			x = append(x, vfGenSeed(t)...)
		}
	case 4:
		x = c03Binary(t)
		x = append(x, rapid.SliceOfN(rapid.Byte(), 0, 40).Draw(t, "tail")...)
	case 5:
		if rapid.Bool().Draw(t, "sized") {
			// containers whose declared size is exactly right, followed by trailing bytes (tags, padding)
			payload := rapid.SliceOfN(rapid.Byte(), 4, 120).Draw(t, "payload")
			switch rapid.IntRange(0, 3).Draw(t, "container") {
			case 3:
				// DOS executable with the pointer to the new header (offset 0x3C) inside the file
				off := rapid.SampledFrom([]int{0x40, 0x80, 0x100, 0x200}).Draw(t, "lfanew")
				x = make([]byte, off+64)
				copy(x, "MZ\x90\x00\x03")
				x[0x3C], x[0x3D] = byte(off), byte(off>>8)
				copy(x[off:], rapid.SampledFrom([]string{"PE\x00\x00\x4c\x01", "NE\x05\x01", "LE\x00\x00", "LX\x00\x00", "\x00\x00\x00\x00", "W3"}).Draw(t, "newhdr"))
			case 0:
				form := rapid.SampledFrom([]string{"WAVEfmt ", "WEBPVP8 ", "AVI LIST", "QLCMfmt "}).Draw(t, "riffform")
				body := append([]byte(form), payload...)
				x = append([]byte("RIFF"), byte(len(body)), byte(len(body)>>8), 0, 0)
				x = append(x, body...)
			case 1:
				body := append([]byte(rapid.SampledFrom([]string{"AIFF", "AIFC"}).Draw(t, "aiff")), payload...)
				x = append([]byte("FORM"), 0, 0, byte(len(body)>>8), byte(len(body)))
				x = append(x, body...)
			default:
				brand := rapid.SampledFrom([]string{"isom", "M4A ", "avif", "3gp4", "qt  ", "heic"}).Draw(t, "brand")
				x = append([]byte{0, 0, 0, 24}, []byte("ftyp"+brand+"\x00\x00\x02\x00"+brand+"mp41")...)
				x = append(x, 0, 0, 0, byte(8+len(payload)))
				x = append(x, []byte("free")...)
				x = append(x, payload...)
			}
			x = append(x, rapid.SampledFrom([]string{"", "\x00", "TAG" + strings.Repeat("\x00", 125), "\x00\x00\x00\x00\x00\x00\x00\x00", "trailing junk"}).Draw(t, "trailer")...)
			break
		}
		x = c03Ole(t)
	case 6:
		x = c03Zip(t)
	case 7: // a recognised binary with markers of OTHER signatures written somewhere behind its own
		switch rapid.IntRange(0, 3).Draw(t, "base") {
		case 0:
			x, _ = c18GenArchive(t)
		case 1:
			x = c03Zip(t)
		case 2:
			x = c03Ole(t)
		default:
			x = append(vfGenSeed(t), make([]byte, rapid.IntRange(0, 700).Draw(t, "pad"))...)
		}
		for i, k := 0, rapid.IntRange(1, 3).Draw(t, "nmark"); i < k && len(x) > 8; i++ {
			mk := []byte(rapid.SampledFrom(c17Markers).Draw(t, "marker"))
			p := rapid.IntRange(4, len(x)).Draw(t, "mpos")
			if rapid.Bool().Draw(t, "ins") {
				x = append(x[:p:p], append(mk, x[p:]...)...)
			} else {
				x = append(x[:p:p], append(mk, x[min(len(x), p+len(mk)):]...)...)
			}
		}
	default: // a seed prefix spliced before another seed (signatures at offsets)
		a, b := vfGenSeed(t), vfGenSeed(t)
		p := rapid.IntRange(0, min(len(a), 140)).Draw(t, "p")
		x = append(a[:p:p], b...)
	}
	if len(x) > 9000 {
		x = x[:9000]
	}
	if rapid.IntRange(0, 199).Draw(t, "hugefile") == 0 {
		// a real-size file: the same header followed by 70 KB - 1.2 MB of data
		tail := make([]byte, rapid.SampledFrom([]int{70000, 300000, 1200000}).Draw(t, "hugetail"))
		if rapid.Bool().Draw(t, "patterned") {
			for i := range tail {
				tail[i] = byte(i * 7)
			}
		}
		x = append(x, tail...)
	}
	return c17Case{X: x}
}

func TestVerif_C17(t *testing.T) {
	defer vfStats.dump()
	vfStats.Property = "C17"
	sub := vfSub[c17Case]{Prop: "C17", Name: "gen", Checks: vfN(6000, 1200000), Gen: c17Gen, Check: c17Check,
		Sample: func(c c17Case) any {
			return map[string]any{"len": len(c.X), "x": vfQ(c.X[:min(len(c.X), 70)])}
		}}
	if vfOnlySub("gen") {
		vfRun(t, sub)
	}
	if t.Failed() || vfReplayMode() {
		return
	}
	if vfOnlySub("splice") {
		// every seed cut after k bytes (k <= 48) and continued differently: a signature that is only
		// matched because the header ends there must not turn into text or "unknown" when it goes on
		sh, nsh := vfShard(), vfNShards()
		conts := [][]byte{[]byte("_NOTES and more text\n"), []byte("\r\nline two\r\n"), {0, 0, 0, 0, 0, 0, 0, 0}, []byte("\xff\xfe\xfd")}
		idx := 0
		for _, s := range vfSeeds() {
			for k := 1; k <= len(s.Data) && k <= 48; k++ {
				for ci, ct := range conts {
					idx++
					if idx%nsh != sh {
						continue
					}
					x := append(append([]byte(nil), s.Data[:k]...), ct...)
					c := c17Case{X: x}
					r := c17Check(c)
					r.Labels = append(r.Labels, "splice")
					vfStats.record(r, func() any { return map[string]any{"sub": "splice", "seed": s.Name, "k": k, "cont": ci} })
					if r.Err != nil {
						vfEnumFail(t, "C17", "gen", c, r.Err)
						return
					}
				}
			}
		}
		vfStats.Subchecks["splice"] = fmt.Sprintf("%d inputs: every seed cut after k<=48 bytes x 4 continuations, all limits", idx)
	}
	if t.Failed() {
		return
	}
	if vfOnlySub("dict") {
		// every literal of the code under test at the start of a file and behind a few kinds of
		// leading junk (a line of text, 100 bytes and a line break, NULs, a 512-byte block)
		sh, nsh := vfShard(), vfNShards()
		leads := []string{"", "junk line\n", strings.Repeat("x", 100) + "\n", "\x00\x00\x00\x00", strings.Repeat("\x00", 512), "\r\n", "\x1b%-12345X@PJL JOB\r\n"}
		tails := []string{"", "1.4\n%\xe2\xe3\xcf\xd3\n1 0 obj\n<< >>\nendobj\n", "\x00\x00\x00\x10\x00\x01binary tail\xff\xfe"}
		idx := 0
		for _, tok := range vfDictLits {
			for li, lead := range leads {
				for ti, tail := range tails {
					idx++
					if idx%nsh != sh {
						continue
					}
					c := c17Case{X: vfB(lead + tok + tail)}
					r := c17Check(c)
					r.Labels = append(r.Labels, "dict")
					vfStats.record(r, func() any { return map[string]any{"sub": "dict", "literal": vfQ([]byte(tok)), "lead": li, "tail": ti} })
					if r.Err != nil {
						vfEnumFail(t, "C17", "gen", c, r.Err)
						return
					}
				}
			}
		}
		vfStats.Subchecks["dict"] = fmt.Sprintf("%d source literals x %d leads x %d tails, all limits", len(vfDictLits), len(leads), len(tails))
	}
	if t.Failed() {
		return
	}
	if vfOnlySub("seeds") {
		// every seed header, all limits
		sh, nsh := vfShard(), vfNShards()
		for i, s := range vfSeeds() {
			if i%nsh != sh {
				continue
			}
			c := c17Case{X: s.Data}
			r := c17Check(c)
			r.Labels = append(r.Labels, "seeds")
			vfStats.record(r, func() any { return map[string]any{"sub": "seeds", "seed": s.Name, "len": len(s.Data)} })
			if r.Err != nil {
				vfEnumFail(t, "C17", "gen", c, r.Err)
				return
			}
		}
		vfStats.Subchecks["seeds"] = fmt.Sprintf("all %d seed headers at every limit (exhaustive for len<=600, boundary sample beyond)", len(vfSeeds()))
	}
}
