//go:build verif

package mimetype

import (
	atar "archive/tar"
	"bytes"
	"fmt"
	"strings"
	"testing"
	"time"

	"pgregory.net/rapid"
)

// C18 — tar detection tracks header checksum validity.
//
// Archives are produced by archive/tar (USTAR, PAX, GNU, auto). Forward: Detect reports
// application/x-tar unless a root child that precedes tar accepts the same header (counted).
// Corruption: for (position in [0,512) \ [148,156), value != original) the archive with that
// single byte replaced is not reported as application/x-tar.

type c18Case struct {
	Archive vfB     `json:"archive"`
	Format  string  `json:"format"`
	MagicName bool  `json:"magic_name"`  // the first member's name begins like another format's magic number
	Corr    [][]int `json:"corruptions"` // [pos, val] pairs; empty + All=false: forward only
	All     bool    `json:"all"`         // every position x every value
	// MemberName: build the archive here (one regular member of that name) instead of Archive
	MemberName string `json:"member_name,omitempty"`
	Pinned     bool   `json:"pinned,omitempty"` // a pinned known-finding case: never excluded
}

// c18BuildOne writes an archive with one regular member.
func c18BuildOne(name, format string) []byte {
	h := &atar.Header{Name: name, Mode: 0o644, Typeflag: atar.TypeReg, ModTime: time.Unix(1700000000, 0), Size: 12}
	switch format {
	case "ustar":
		h.Format = atar.FormatUSTAR
	case "pax":
		h.Format = atar.FormatPAX
	case "gnu":
		h.Format = atar.FormatGNU
	}
	var buf bytes.Buffer
	w := atar.NewWriter(&buf)
	if err := w.WriteHeader(h); err != nil {
		return nil
	}
	w.Write([]byte("member data\n"))
	w.Close()
	return buf.Bytes()
}

func c18IsTar(m *MIME) bool { return m.String() == "application/x-tar" }

func c18Check(c c18Case) vfResult {
	var r vfResult
	r.LabelN = map[string]int64{}
	a := []byte(c.Archive)
	if c.MemberName != "" {
		a = c18BuildOne(c.MemberName, c.Format)
	}
	if len(a) < 512 {
		return vfFailf("generator bug: archive shorter than one block (%d)", len(a))
	}
	// known finding F10 (see known_findings.json): a first member whose name ends in /gpkg-1 is
	// deliberately not reported as tar. Excluded by construction, counted; the pinned case itself
	// is evaluated and reported as KNOWN-FINDING.
	if !c.Pinned && bytes.Contains(a[:100], []byte("/gpkg-1\x00")) {
		return vfResult{Skip: "known-finding-F10:first-member-name-ends-in-/gpkg-1"}
	}
	for _, lim := range []uint32{defaultLimit, 0, 512} {
		m := vfDetectAt(a, lim)
		r.N++
		if !c18IsTar(m) {
			if hp := vfEarlierSibling([]*MIME{tar}, vfHeader(a, lim), lim); hp != "" && c.MagicName {
				return vfResult{Skip: "higher-priority-signature:" + hp}
			}
			r.Err = fmt.Errorf("%s archive written by archive/tar is reported as %s at limit %d; first block %s", c.Format, vfChainStr(m), lim, vfQ(a[:512]))
			return r
		}
		if err := vfRoutes(a, lim, m); err != nil {
			r.Err = fmt.Errorf("%s archive at limit %d: %v; first block %s", c.Format, lim, err, vfQ(a[:512]))
			return r
		}
	}
	high := false
	for _, b := range a[:512] {
		if b >= 0x80 {
			high = true
		}
	}
	if high {
		r.Labels = append(r.Labels, "header-has-high-bit-bytes")
	}
	r.Labels = append(r.Labels, "format-"+c.Format)
	try := func(pos, val int) bool {
		if pos < 0 || pos >= 512 || (pos >= 148 && pos < 156) || byte(val) == a[pos] {
			return true
		}
		b := append([]byte(nil), a...)
		b[pos] = byte(val)
		r.N++
		oct := func(x byte) bool { return x >= '0' && x <= '7' }
		alpha := func(x byte) bool { return x >= 'a' && x <= 'z' }
		if (oct(a[pos]) && oct(byte(val))) || (alpha(a[pos]) && alpha(byte(val))) {
			r.LabelN["corruption-keeps-byte-class"]++
			r.Nontrivial = true
		}
		if high {
			r.Nontrivial = true
		}
		m := vfDetectAt(b, defaultLimit)
		if c18IsTar(m) {
			r.Err = fmt.Errorf("%s archive with byte %d changed from %#x to %#x is still reported as application/x-tar; first block %s", c.Format, pos, a[pos], val, vfQ(a[:512]))
			return false
		}
		r.LabelN["corruptions"]++
		return true
	}
	if c.All {
		for pos := 0; pos < 512; pos++ {
			for val := 0; val < 256; val++ {
				if !try(pos, val) {
					return r
				}
			}
		}
		r.Labels = append(r.Labels, "all-504x255-corruptions")
	}
	for _, pv := range c.Corr {
		if len(pv) == 2 && !try(pv[0], pv[1]) {
			return r
		}
	}
	r.Hash = vfHash(a[:512], []byte(fmt.Sprint(c.Corr, c.All)))
	return r
}

func c18GenArchive(t *rapid.T) ([]byte, string) {
	var buf bytes.Buffer
	w := atar.NewWriter(&buf)
	format := rapid.SampledFrom([]string{"ustar", "pax", "gnu", "auto"}).Draw(t, "format")
	n := rapid.IntRange(1, 3).Draw(t, "nfiles")
	for i := 0; i < n; i++ {
		name := rapid.SampledFrom([]string{"a.txt", "dir/file.bin", "README", "x", "日本語.txt", "café/menu", strings.Repeat("long/", 25) + "name.txt", strings.Repeat("n", 99), strings.Repeat("m", 101), "0", " lead", "./rel",
			// member names that begin like the magic number of another format
			"BMW/readme.txt", "BM", "ID3v2-tags.md", "II*\x00.tif", "MM\x00*", "GIF89a.txt", "fLaC.notes", "MThd", "FORM", ".snd", "8BPS.psd", "%PDF-notes", "MZ.exe", "OggS", "RIFF", "xar!", "BZh91", "SIMPLE", "wOFF", "Rar!", "070707", "#!AMR", "MAC ", "MPCK", "FLV", "CWS", "icns", "PAR1", "d8:announce", "ftyp", "\x00\x00\x01\x00", "wOF2", "OTTO", "ttcf", "LZIP", "MSCF", "TZif",
			// names with all kinds of extensions: the member name never decides
			// the Gentoo marker name elsewhere than at the end of the first member's name
			"foo-1.0-1/gpkg-1/metadata.tar.gz", "backup/gpkg-1.2/readme", "cache/gpkg-10", "x/gpkg-1x", "gpkg-1", "/gpkg-1-notes.txt",
			"appliance.ovf", "disk.ova", "box.ovf", "image.vmdk", "backup.tar", "a.tar.gz", "doc.xml", "data.json", "page.html", "lib.so", "x.class", "Dockerfile", "manifest.mf", "layer.tar", "index.docx", "book.epub", "mimetype"}).Draw(t, "name")
		shaped := rapid.IntRange(0, 11).Draw(t, "shaped") == 0
		if shaped {
			name = c18ShapedName(t)
		}
		body := rapid.SliceOfN(rapid.Byte(), 0, 60).Draw(t, "body")
		if shaped && rapid.Bool().Draw(t, "brandbody") {
			body = []byte(rapid.SampledFrom([]string{"jp2 ", "jpx jp2 ", "\x00\x00\x00\x0cjP  \r\n\x87\n", "jpm jp2 jpx "}).Draw(t, "bb"))
		} else if rapid.IntRange(0, 3).Draw(t, "magicbody") == 0 {
			// member CONTENT that looks like another format; only the header block decides
			body = []byte(rapid.SampledFrom([]string{"%PDF-1.4\n%\xe2\xe3\xcf\xd3\n1 0 obj", "PK\x03\x04\x14\x00", "GIF89a\x01\x00", "\x89PNG\r\n\x1a\n", "MZ\x90\x00", "\x7fELF\x02\x01\x01", "%!PS-Adobe-3.0", "<?xml version=\"1.0\"?><svg/>", "{\"a\":1}", "8BPS\x00\x01", "OggS\x00\x02", "/* XPM */", "7z\xbc\xaf\x27\x1c"}).Draw(t, "mb"))
		} else if rapid.IntRange(0, 3).Draw(t, "dictbody") == 0 {
			// member content that mentions literals of the code under test (paths, markers, magic)
			body = nil
			for j, k := 0, rapid.IntRange(1, 4).Draw(t, "ndict"); j < k; j++ {
				body = append(body, rapid.SampledFrom([]string{"", "pkg-1.0", "./", "usr/share/doc", "\n"}).Draw(t, "dlead")...)
				body = append(body, vfDictTok(t)...)
				body = append(body, rapid.SampledFrom([]string{"\n", "\x00", " ", ""}).Draw(t, "dsep")...)
			}
		}
		h := &atar.Header{
			Name:    name,
			Mode:    int64(rapid.SampledFrom([]int{0o644, 0o755, 0o600, 0o7777, 0, 0o100644}).Draw(t, "mode")),
			Uid:     rapid.SampledFrom([]int{0, 1000, 65534, 2097151, 2097152, 1 << 30}).Draw(t, "uid"),
			Gid:     rapid.SampledFrom([]int{0, 100, 2097151, 2097152, 1 << 31}).Draw(t, "gid"),
			Size:    int64(len(body)),
			ModTime: time.Unix(int64(rapid.SampledFrom([]int{0, 1, 1700000000, 1 << 33, 1 << 40}).Draw(t, "mtime")), 0),
			Uname:   rapid.SampledFrom([]string{"", "root", "user", "benutzerä"}).Draw(t, "uname"),
			Gname:   rapid.SampledFrom([]string{"", "wheel", "staff"}).Draw(t, "gname"),
		}
		switch rapid.IntRange(0, 6).Draw(t, "type") {
		case 0:
			h.Typeflag, h.Size, body = atar.TypeDir, 0, nil
			h.Name += "/"
		case 1:
			h.Typeflag, h.Linkname, h.Size, body = atar.TypeSymlink, rapid.SampledFrom([]string{"target", "../up", strings.Repeat("l", 120)}).Draw(t, "link"), 0, nil
		case 2:
			h.Typeflag, h.Linkname, h.Size, body = atar.TypeLink, "a.txt", 0, nil
		case 3:
			h.Typeflag, h.Devmajor, h.Devminor, h.Size, body = atar.TypeChar, int64(rapid.IntRange(0, 300).Draw(t, "maj")), int64(rapid.IntRange(0, 2100000).Draw(t, "min")), 0, nil
		case 4:
			h.Typeflag, h.Size, body = atar.TypeFifo, 0, nil
		default:
			h.Typeflag = atar.TypeReg
		}
		if shaped && name[0] == '0' {
			format = "gnu" // 8-bit name bytes
		}
		if rapid.IntRange(0, 19).Draw(t, "verylong") == 0 {
			// path names and link targets of any length (PATH_MAX is not a limit of the format)
			n := rapid.SampledFrom([]int{255, 256, 4095, 4096, 4097, 5000, 70000}).Draw(t, "pathlen")
			name = strings.Repeat("d/", n/2)[:n-1] + "f"
			if rapid.Bool().Draw(t, "longlink") && h.Typeflag == atar.TypeSymlink {
				h.Linkname = strings.Repeat("l", n)
			}
			h.Name = name
			if format == "ustar" {
				format = rapid.SampledFrom([]string{"gnu", "pax"}).Draw(t, "longfmt")
			}
		}
		if i == 0 && n >= 2 && rapid.IntRange(0, 9).Draw(t, "sizedlink") == 0 && (h.Typeflag == atar.TypeLink || h.Typeflag == atar.TypeSymlink || h.Typeflag == atar.TypeDir) {
			// old archivers record the size of the linked file in a link's header (there is no data)
			h.Size = int64(rapid.SampledFrom([]int{1, 100, 512, 1000, 1536}).Draw(t, "linksize"))
		}
		if rapid.IntRange(0, 9).Draw(t, "highbytes") == 0 {
			// legacy 8-bit names (GNU format stores them as they are): every string field full
			// of bytes >= 0x80, so that the header checksum exceeds 16 bits
			hb := func(n int, label string) string {
				return strings.Repeat(rapid.SampledFrom([]string{"\xff", "\xfe", "\xd1\x8f", "\xe9", "\xf0\x9f\x98\x80"}).Draw(t, label), n)[:n]
			}
			h.Name = hb(rapid.SampledFrom([]int{60, 99, 100}).Draw(t, "hn"), "hname")
			h.Uname, h.Gname = hb(31, "huname"), hb(31, "hgname")
			if rapid.Bool().Draw(t, "hlink") {
				h.Typeflag, h.Linkname, h.Size, body = atar.TypeSymlink, hb(rapid.SampledFrom([]int{50, 100}).Draw(t, "hl"), "hlname"), 0, nil
			}
			format = "gnu"
		}
		switch format {
		case "ustar":
			h.Format = atar.FormatUSTAR
		case "pax":
			h.Format = atar.FormatPAX
		case "gnu":
			h.Format = atar.FormatGNU
		}
		if i == 0 && rapid.IntRange(0, 19).Draw(t, "hugesize") == 0 && h.Typeflag == atar.TypeReg {
			// a first member of 4-8 GiB: only the header and the first data bytes are ever examined
			h.Size = rapid.SampledFrom([]int64{1<<32 - 511, 1<<32 - 1, 1 << 32, 1<<32 + 1, 1<<32 + 2048, 1<<33 - 511, 1<<33 - 1, 1 << 31, 1<<31 + 513}).Draw(t, "size")
			if err := w.WriteHeader(h); err == nil {
				w.Write(bytes.Repeat([]byte("member data, not NUL. "), 140))
				w.Flush()
				return buf.Bytes()[:min(buf.Len(), 3072)], format
			}
			h.Size = int64(len(body))
		}
		if err := w.WriteHeader(h); err != nil {
			// this header cannot be encoded in the chosen format: let the writer choose
			h.Format = atar.FormatUnknown
			if err2 := w.WriteHeader(h); err2 != nil {
				t.Skip("unencodable header")
			}
		}
		if len(body) > 0 {
			w.Write(body)
		}
	}
	w.Close()
	return buf.Bytes(), format
}

// c18ShapedNames: member names that come CLOSE to signatures with computed offsets. A DER
// SEQUENCE header ('0', length byte 0x80|n, n length bytes) followed by the PKCS#7 signedData
// OID is a signature only for n <= 4; a JPEG 2000 signature box needs "jP  " at offset 4 AND
// the brand at offset 20 - a brand anywhere else does not count.
func c18ShapedName(t *rapid.T) string {
	oid := "\x06\x09\x2a\x86\x48\x86\xf7\x0d\x01\x07\x02"
	if rapid.Bool().Draw(t, "der") {
		n := rapid.SampledFrom([]int{5, 6, 8, 16, 40, 70, 88}).Draw(t, "derlen")
		return "0" + string([]byte{0x80 | byte(n)}) + strings.Repeat("\x01", n) + oid
	}
	sig := rapid.SampledFrom([]string{"jP  ", "jP2 "}).Draw(t, "jpsig")
	brand := rapid.SampledFrom([]string{"jp2 ", "jpx ", "jpm "}).Draw(t, "brand")
	at := rapid.SampledFrom([]int{24, 28, 32, 44, 64, 92}).Draw(t, "brandat")
	name := []byte("file" + sig + strings.Repeat("x", 92))
	copy(name[at:], brand)
	return string(name[:at+4+rapid.IntRange(0, 3).Draw(t, "jptail")])
}

func c18MagicName(a []byte) bool {
	for _, p := range []string{"BM", "ID3", "II*", "MM\x00*", "GIF8", "fLaC", "MThd", "FORM", ".snd", "8BPS", "%PDF-", "MZ", "OggS", "RIFF", "xar!", "BZh", "SIMPLE", "wOF", "Rar!", "0707", "#!AMR", "MAC ", "MPCK", "FLV", "CWS", "icns", "PAR1", "d8:announce", "\x00\x00\x01\x00", "OTTO", "ttcf", "LZIP", "MSCF", "TZif", "././@", "PaxHeader"} {
		if bytes.HasPrefix(a, []byte(p)) {
			return true
		}
	}
	return false
}

// c18Respell rewrites the checksum field of the first header block in another spelling that
// conforming writers use (the VALUE stays the checksum): 6 digits NUL SP (POSIX), 7 digits NUL
// (GNU tar, star), 6 digits SP NUL, SP 6 digits NUL, 7 digits SP, 6 digits NUL NUL.
func c18Respell(a []byte, style int) []byte {
	if len(a) < 512 || style == 0 {
		return a
	}
	sum := 0
	for i := 0; i < 512; i++ {
		if i >= 148 && i < 156 {
			sum += ' '
		} else {
			sum += int(a[i])
		}
	}
	var f string
	switch style {
	case 1:
		f = fmt.Sprintf("%07o\x00", sum)
	case 2:
		f = fmt.Sprintf("%06o \x00", sum)
	case 3:
		f = fmt.Sprintf(" %06o\x00", sum)
	case 4:
		f = fmt.Sprintf("%07o ", sum)
	default:
		f = fmt.Sprintf("%06o\x00\x00", sum)
	}
	if len(f) != 8 {
		return a
	}
	out := append([]byte(nil), a...)
	copy(out[148:], f)
	return out
}

func c18Gen(t *rapid.T) c18Case {
	a, format := c18GenArchive(t)
	a = c18Respell(a, rapid.SampledFrom([]int{0, 0, 0, 1, 2, 3, 4, 5}).Draw(t, "chkstyle"))
	c := c18Case{Archive: a, Format: format, MagicName: c18MagicName(a)}
	if len(a) > 3072 {
		c.Archive = a[:3072]
	}
	n := rapid.IntRange(20, 60).Draw(t, "ncorr")
	for i := 0; i < n; i++ {
		pos := rapid.IntRange(0, 503).Draw(t, "pos")
		if pos >= 148 {
			pos += 8
		}
		var val int
		switch rapid.IntRange(0, 3).Draw(t, "vk") {
		case 0: // keep the byte class
			o := a[pos]
			switch {
			case o >= '0' && o <= '7':
				val = '0' + rapid.IntRange(0, 7).Draw(t, "oct")
			case o >= 'a' && o <= 'z':
				val = 'a' + rapid.IntRange(0, 25).Draw(t, "al")
			default:
				val = rapid.IntRange(0, 255).Draw(t, "v")
			}
		case 1:
			val = int(a[pos]) ^ (1 << uint(rapid.IntRange(0, 7).Draw(t, "bit")))
		case 2:
			val = int(a[pos]) ^ 0x80
		default:
			val = rapid.IntRange(0, 255).Draw(t, "v")
		}
		c.Corr = append(c.Corr, []int{pos, val})
	}
	return c
}

func TestVerif_C18(t *testing.T) {
	defer vfStats.dump()
	sample := func(c c18Case) any {
		return map[string]any{"format": c.Format, "len": len(c.Archive), "name_field": vfQ(bytes.TrimRight(c.Archive[:100], "\x00")), "typeflag": string(c.Archive[156:157]), "magic": vfQ(c.Archive[257:265]), "corruptions": len(c.Corr), "all": c.All}
	}
	if vfOnlySub("gen") {
		vfRun(t, vfSub[c18Case]{Prop: "C18", Name: "gen", Checks: vfN(8000, 2400000), Gen: c18Gen, Check: c18Check, Sample: sample})
	}
	if t.Failed() {
		return
	}
	if vfOnlySub("dict") && !vfReplayMode() {
		// every literal of the code under test, placed where member data, member names and
		// link names go: what an archive CONTAINS never makes it something else than a tar
		sh, nsh := vfShard(), vfNShards()
		idx, built := 0, 0
		for _, tok := range vfDictLits {
			for place := 0; place < 5; place++ {
				for fi, format := range []atar.Format{atar.FormatUSTAR, atar.FormatPAX, atar.FormatGNU} {
					idx++
					if idx%nsh != sh {
						continue
					}
					h := &atar.Header{Name: "pkg-1.0/data.bin", Mode: 0o644, Typeflag: atar.TypeReg, ModTime: time.Unix(1700000000, 0), Format: format}
					body := []byte("member data\n")
					clean := strings.Map(func(r rune) rune {
						if r == 0 || r > 0x7e {
							return -1
						}
						return r
					}, tok)
					switch place {
					case 0:
						body = append([]byte(tok), body...)
					case 1:
						body = append(append([]byte("pkg-1.0"), tok...), "\nmore\n"...)
					case 2:
						body = append(bytes.Repeat([]byte("x"), 300), tok...)
					case 3:
						h.Name = "dir/sub" + clean
					default:
						h.Typeflag, h.Linkname, body = atar.TypeSymlink, "target"+clean, nil
					}
					if c18MagicName([]byte(h.Name)) || len(h.Name) == 0 || strings.HasSuffix(h.Name, "/") {
						continue
					}
					h.Size = int64(len(body))
					var buf bytes.Buffer
					w := atar.NewWriter(&buf)
					if err := w.WriteHeader(h); err != nil {
						continue
					}
					w.Write(body)
					w.Close()
					built++
					c := c18Case{Archive: buf.Bytes(), Format: []string{"ustar", "pax", "gnu"}[fi]}
					r := c18Check(c)
					r.Nontrivial = true
					r.Labels = append(r.Labels, "dict", fmt.Sprint("dict-place-", place))
					vfStats.record(r, func() any { return map[string]any{"sub": "dict", "literal": vfQ([]byte(tok)), "place": place, "format": c.Format} })
					if r.Err != nil {
						vfEnumFail(t, "C18", "gen", c, r.Err)
						return
					}
				}
			}
		}
		vfStats.Subchecks["dict"] = fmt.Sprintf("%d source literals x 5 placements (data start, data after a path, data at offset 300, member name, link name) x 3 formats; this shard built %d archives", len(vfDictLits), built)
	}
	if t.Failed() {
		return
	}
	if vfOnlySub("all") {
		vfRun(t, vfSub[c18Case]{Prop: "C18", Name: "all", Checks: vfN(8, 960), Check: c18Check, Sample: sample,
			Gen: func(t *rapid.T) c18Case {
				a, format := c18GenArchive(t)
				if len(a) > 1024 {
					a = a[:1024]
				}
				return c18Case{Archive: a, Format: format, All: true, MagicName: c18MagicName(a)}
			}})
	}
}
