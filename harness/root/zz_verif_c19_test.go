//go:build verif

package mimetype

import (
	azip "archive/zip"
	"bytes"
	"compress/flate"
	"fmt"
	"hash/crc32"
	"io"
	"strings"
	"testing"
	"time"

	"pgregory.net/rapid"
)

// C19 — zip-based formats are identified from their leading entry names.
//
// Archives are produced by archive/zip (streaming entries with data descriptors, and raw
// entries with sizes in the local header; Store and Deflate). The entry list is read back
// with the archive/zip reader as ground truth. Examined in full (limit 0).

type c19Entry struct {
	Name   string `json:"name"`
	Method int    `json:"method"` // 0 store, 8 deflate
	Stream bool   `json:"stream"` // true: data descriptor; false: sizes in the local header
	Body   vfB    `json:"body"`
	Mod    bool   `json:"mod,omitempty"` // modification time set: the writer adds an extended-timestamp extra field
	Extra  vfB    `json:"extra,omitempty"` // extra field records of the local header (JAR magic 0xCAFE, unix uid/gid, padding, ...)
	Flags  int    `json:"flags,omitempty"` // general-purpose flag bits 1-2 (deflate effort, set by `zip -9`, `zip -1` and MS Office)
}

type c19Case struct {
	Kind    string     `json:"kind"` // ooxml | jar | odf | free
	Entries []c19Entry `json:"entries"`
	Want    string     `json:"want,omitempty"` // expected media type for ooxml/odf kinds
	Prev    []c19Entry `json:"prev,omitempty"` // another archive that went through the caller's buffer just before
	Pinned  bool       `json:"pinned,omitempty"` // a pinned known-finding case: never excluded
	// Zip64: the first entry is re-written the way "always Zip64" writers do it (Python zipfile with
	// force_zip64, commons-compress Zip64Mode.Always): sizes 0xFFFFFFFF in the local header, the real
	// ones in a Zip64 extra field
	Zip64 bool `json:"zip64,omitempty"`
}

// c19ForceZip64 rewrites the first local header of raw (which must carry its sizes, i.e. no data
// descriptor) into the Zip64 form and fixes the offsets of the central directory.
func c19ForceZip64(raw []byte) []byte {
	if len(raw) < 30 || string(raw[:4]) != "PK\x03\x04" || raw[6]&0x08 != 0 {
		return nil
	}
	le16 := func(b []byte) int { return int(b[0]) | int(b[1])<<8 }
	le32 := func(b []byte) uint32 { return uint32(b[0]) | uint32(b[1])<<8 | uint32(b[2])<<16 | uint32(b[3])<<24 }
	put32 := func(b []byte, v uint32) { b[0], b[1], b[2], b[3] = byte(v), byte(v>>8), byte(v>>16), byte(v>>24) }
	nl, el := le16(raw[26:]), le16(raw[28:])
	csize, usize := le32(raw[18:]), le32(raw[22:])
	end := 30 + nl + el
	if end > len(raw) {
		return nil
	}
	ext := []byte{0x01, 0x00, 0x10, 0x00, byte(usize), byte(usize >> 8), byte(usize >> 16), byte(usize >> 24), 0, 0, 0, 0, byte(csize), byte(csize >> 8), byte(csize >> 16), byte(csize >> 24), 0, 0, 0, 0}
	out := append([]byte(nil), raw[:end]...)
	out = append(out, ext...)
	out = append(out, raw[end:]...)
	out[4], out[5] = 45, 0
	put32(out[18:], 0xFFFFFFFF)
	put32(out[22:], 0xFFFFFFFF)
	out[28], out[29] = byte(el+20), byte((el+20)>>8)
	// central directory: local header offsets of the later entries, and the directory's own offset
	eocd := bytes.LastIndex(out, []byte("PK\x05\x06"))
	if eocd < 0 || eocd+22 > len(out) {
		return nil
	}
	cd := int(le32(out[eocd+16:])) + 20
	put32(out[eocd+16:], uint32(cd))
	for p := cd; p+46 <= eocd && string(out[p:p+4]) == "PK\x01\x02"; {
		if off := le32(out[p+42:]); off > 0 {
			put32(out[p+42:], off+20)
		}
		p += 46 + le16(out[p+28:]) + le16(out[p+30:]) + le16(out[p+32:])
	}
	return out
}

func c19Build(es []c19Entry) ([]byte, error) {
	var buf bytes.Buffer
	w := azip.NewWriter(&buf)
	for _, e := range es {
		body := []byte(e.Body)
		if strings.HasSuffix(e.Name, "/") {
			body = nil // directory entries carry no data
			e.Method = 0
		}
		if e.Stream {
			fh := &azip.FileHeader{Name: e.Name, Method: uint16(e.Method), Extra: []byte(e.Extra), Flags: uint16(e.Flags)}
			if e.Mod {
				fh.Modified = time.Date(2024, 2, 29, 12, 30, 0, 0, time.UTC)
			}
			fw, err := w.CreateHeader(fh)
			if err != nil {
				return nil, err
			}
			if len(body) > 0 {
				if _, err := fw.Write(body); err != nil {
					return nil, err
				}
			}
			continue
		}
		comp := body
		if e.Method == 8 {
			var cb bytes.Buffer
			fw, _ := flate.NewWriter(&cb, flate.DefaultCompression)
			fw.Write(body)
			fw.Close()
			comp = cb.Bytes()
		}
		fh := &azip.FileHeader{Name: e.Name, Method: uint16(e.Method), CRC32: crc32.ChecksumIEEE(body),
			CompressedSize64: uint64(len(comp)), UncompressedSize64: uint64(len(body)), Extra: []byte(e.Extra), Flags: uint16(e.Flags)}
		if e.Mod {
			fh.Modified = time.Date(2024, 2, 29, 12, 30, 0, 0, time.UTC)
		}
		rw, err := w.CreateRaw(fh)
		if err != nil {
			return nil, err
		}
		if len(comp) > 0 {
			if _, err := rw.Write(comp); err != nil {
				return nil, err
			}
		}
	}
	if err := w.Close(); err != nil {
		return nil, err
	}
	return buf.Bytes(), nil
}

var (
	c19OOXML = map[string]string{
		"word/": "application/vnd.openxmlformats-officedocument.wordprocessingml.document",
		"xl/":   "application/vnd.openxmlformats-officedocument.spreadsheetml.sheet",
		"ppt/":  "application/vnd.openxmlformats-officedocument.presentationml.presentation",
	}
	c19APKMarkers = []string{"AndroidManifest.xml", "META-INF/com/android/build/gradle/app-metadata.properties", "classes.dex", "resources.arsc", "res/drawable"}
	c19JarMarker  = "META-INF/MANIFEST.MF"
	c19ODF        = []string{
		"application/vnd.oasis.opendocument.text", "application/vnd.oasis.opendocument.text-template",
		"application/vnd.oasis.opendocument.spreadsheet", "application/vnd.oasis.opendocument.spreadsheet-template",
		"application/vnd.oasis.opendocument.presentation", "application/vnd.oasis.opendocument.presentation-template",
		"application/vnd.oasis.opendocument.graphics", "application/vnd.oasis.opendocument.graphics-template",
		"application/vnd.oasis.opendocument.formula", "application/vnd.oasis.opendocument.chart",
		"application/epub+zip", "application/vnd.sun.xml.calc",
	}
	c19Bookkeeping = []string{"customXml/LOCK.PK", "docProps/BACKUP.PK", "_rels/.rels", "docProps/app.xml", "docProps/core.xml", "docProps/thumbnail.jpeg", "customXml/item1.xml", "customXml/itemProps1.xml", "[trash]/0000.dat", "customXml/_rels/item1.xml.rels"}
	c19Unrelated   = []string{"readme.txt", "a", "1", "images/logo.png", "data/2024/report.csv", "Word/document.xml", "words/list.txt", "word", "xl.xml", "xl", "ppt", "pptx/slide.xml", "META-INF/MANIFEST", "META-INF/manifest.xml", "META-INF/container.xml", "meta-inf/MANIFEST.MF", "content.xml", "styles.xml", "OEBPS/content.opf", "classes.dexx", "Android.xml", "res/draw", "lib/word/x", "src/xl/y", "mimetype.txt"}
	c19Parts       = map[string][]string{
		"word/": {"word/document.xml", "word/_rels/document.xml.rels", "word/styles.xml", "word/"},
		"xl/":   {"xl/workbook.xml", "xl/_rels/workbook.xml.rels", "xl/worksheets/sheet1.xml", "xl/"},
		"ppt/":  {"ppt/presentation.xml", "ppt/slides/slide1.xml", "ppt/_rels/presentation.xml.rels", "ppt/"},
	}
)

func c19GenBody(t *rapid.T) vfB {
	if rapid.IntRange(0, 24).Draw(t, "big") == 0 {
		// several KB that do not compress (a thumbnail, say): pushes later entries far into the file
		n := rapid.SampledFrom([]int{3000, 4200, 5000, 9000, 20000, 70000, 1200000}).Draw(t, "bigsize")
		b := make([]byte, n)
		st := uint64(rapid.IntRange(1, 1<<30).Draw(t, "bigseed"))
		for i := range b {
			st = vfSplitmix(st)
			b[i] = byte(st)
		}
		return vfB(bytes.ReplaceAll(b, []byte("PK"), []byte("pk")))
	}
	switch rapid.IntRange(0, 5).Draw(t, "bk") {
	case 0:
		return nil
	case 1:
		return vfB("<?xml version=\"1.0\" encoding=\"UTF-8\" standalone=\"yes\"?>\n<Types xmlns=\"http://schemas.openxmlformats.org/package/2006/content-types\"><Default Extension=\"rels\" ContentType=\"application/vnd.openxmlformats-package.relationships+xml\"/></Types>")
	case 2:
		return vfB("<?xml version=\"1.0\"?><Relationships xmlns=\"http://schemas.openxmlformats.org/package/2006/relationships\"/>")
	case 3:
		return vfB(rapid.SampledFrom([]string{"x", "/", "/document.xml", "hello", ".MF", "Manifest-Version: 1.0\n", "/workbook.xml trailing", "0123456789abcdef", "PK", "xPK", "dataPK\x05", "PK\x01\x02", "K", "P"}).Draw(t, "small"))
	case 4:
		b := rapid.SliceOfN(rapid.Byte(), 1, 300).Draw(t, "rnd")
		return vfB(bytes.ReplaceAll(b, []byte("PK"), []byte("pk")))
	}
	return vfB(strings.Repeat("lorem ipsum dolor sit amet ", rapid.IntRange(1, 40).Draw(t, "rep")))
}

// c19Extras are extra-field records real writers put into local headers.
var c19Extras = []string{
	"\xfe\xca\x00\x00",                         // the JDK's JAR magic (first entry of a JarOutputStream archive)
	"ux\x0b\x00\x01\x04\xe8\x03\x00\x00\x04\xe8\x03\x00\x00", // Info-ZIP unix uid/gid
	"\x0a\x00\x20\x00\x00\x00\x00\x00\x01\x00\x18\x00" + "\x00\x11\x22\x33\x44\x55\x66\x01" + "\x00\x11\x22\x33\x44\x55\x66\x01" + "\x00\x11\x22\x33\x44\x55\x66\x01", // NTFS times
	"\x35\xd9\x02\x00\x00\x00",                 // Android zipalign padding record
	"\xfe\xca\x00\x00ux\x0b\x00\x01\x04\x00\x00\x00\x00\x04\x00\x00\x00\x00",
	"\x01\x99\x07\x00\x02\x00AE\x03\x08\x00",  // WinZip AES
}

func c19GenEntry(t *rapid.T, name string) c19Entry {
	e := c19Entry{Name: name, Method: rapid.SampledFrom([]int{0, 8, 8}).Draw(t, "method"), Stream: rapid.Bool().Draw(t, "stream"), Body: c19GenBody(t),
		Mod: rapid.IntRange(0, 3).Draw(t, "mod") == 0}
	if rapid.IntRange(0, 3).Draw(t, "withextra") == 0 {
		e.Extra = vfB(rapid.SampledFrom(c19Extras).Draw(t, "extra"))
	}
	if rapid.IntRange(0, 3).Draw(t, "withflags") == 0 {
		e.Flags = rapid.SampledFrom([]int{2, 4, 6}).Draw(t, "flags")
	}
	if rapid.IntRange(0, 24).Draw(t, "aligned") == 0 && !strings.HasSuffix(name, "/") {
		// a stored body sized so that the NEXT local header begins within a few bytes of a multiple
		// of 64 KiB (4 KiB, 1 MiB) counted from this entry's name or from this entry's header
		unit := rapid.SampledFrom([]int{65536, 65536, 65536, 131072, 4096, 1 << 20}).Draw(t, "alignunit")
		from := rapid.SampledFrom([]int{len(name) + len(e.Extra), 30 + len(name) + len(e.Extra), 0}).Draw(t, "alignfrom")
		n := unit - from - rapid.IntRange(-2, 6).Draw(t, "aligndelta")
		if n > 0 {
			b := make([]byte, n)
			st := uint64(n)
			for i := range b {
				st = vfSplitmix(st)
				b[i] = byte(st)
			}
			e.Body, e.Method, e.Stream, e.Mod = vfB(bytes.ReplaceAll(b, []byte("PK"), []byte("pk"))), 0, false, false
		}
	}
	return e
}

func c19Gen(t *rapid.T) c19Case {
	c := c19GenOne(t)
	// (not the `mimetype` entry of OpenDocument / EPUB packages: their specifications forbid an extra field there)
	if !c.Entries[0].Stream && c.Kind != "odf" && rapid.IntRange(0, 5).Draw(t, "zip64") == 0 {
		c.Zip64 = true
	}
	if rapid.Bool().Draw(t, "withprev") {
		c.Prev = c19GenOne(t).Entries
	}
	return c
}

func c19GenOne(t *rapid.T) c19Case {
	var c c19Case
	switch rapid.IntRange(0, 5).Draw(t, "kind") {
	case 0, 1: // (a) OOXML package
		c.Kind = "ooxml"
		fam := rapid.SampledFrom([]string{"word/", "xl/", "ppt/"}).Draw(t, "fam")
		c.Want = c19OOXML[fam]
		c.Entries = append(c.Entries, c19GenEntry(t, "[Content_Types].xml"))
		for i, k := 0, rapid.IntRange(0, 4).Draw(t, "between"); i < k; i++ {
			pool := c19Bookkeeping
			if rapid.IntRange(0, 3).Draw(t, "unrel") == 0 {
				pool = c19Unrelated
			}
			c.Entries = append(c.Entries, c19GenEntry(t, rapid.SampledFrom(pool).Draw(t, "bname")))
		}
		part := rapid.SampledFrom(c19Parts[fam]).Draw(t, "part")
		if rapid.IntRange(0, 19).Draw(t, "longname") == 0 && !strings.HasSuffix(part, "/") {
			// names up to 65535 bytes are legal
			part = fam + strings.Repeat("very-long-directory-name/", rapid.SampledFrom([]int{40, 170, 800, 2500}).Draw(t, "namereps")) + "part.xml"
		}
		c.Entries = append(c.Entries, c19GenEntry(t, part))
		for i, k := 0, rapid.IntRange(0, 3).Draw(t, "after"); i < k; i++ {
			pool := append(append([]string{}, c19Parts[fam]...), c19Bookkeeping...)
			c.Entries = append(c.Entries, c19GenEntry(t, rapid.SampledFrom(pool).Draw(t, "aname")))
		}
	case 2: // (b) JAR
		c.Kind = "jar"
		c.Entries = append(c.Entries, c19GenEntry(t, c19JarMarker))
		for i, k := 0, rapid.IntRange(0, 5).Draw(t, "more"); i < k; i++ {
			pool := []string{"com/example/Main.class", "META-INF/", "META-INF/maven/pom.xml", "a.properties", "AndroidManifest.xml", "classes.dex", "res/drawable/icon.png", "resources.arsc", "lib/x.so"}
			c.Entries = append(c.Entries, c19GenEntry(t, rapid.SampledFrom(pool).Draw(t, "jname")))
		}
	case 3: // (c) ODF / EPUB
		c.Kind = "odf"
		c.Want = rapid.SampledFrom(c19ODF).Draw(t, "odf")
		c.Entries = append(c.Entries, c19Entry{Name: "mimetype", Method: 0, Stream: rapid.Bool().Draw(t, "mstream"), Body: vfB(c.Want)})
		for i, k := 0, rapid.IntRange(0, 5).Draw(t, "more"); i < k; i++ {
			pool := []string{"META-INF/manifest.xml", "META-INF/container.xml", "content.xml", "styles.xml", "meta.xml", "settings.xml", "Thumbnails/thumbnail.png", "OEBPS/content.opf", "OEBPS/toc.ncx", "Pictures/1.png"}
			// a package identified by its leading mimetype entry may also carry JAR / APK marker names
			pool = append(pool, "META-INF/MANIFEST.MF", "AndroidManifest.xml", "classes.dex")
			c.Entries = append(c.Entries, c19GenEntry(t, rapid.SampledFrom(pool).Draw(t, "oname")))
		}
	default: // (d) free-form name lists: converse
		c.Kind = "free"
		n := rapid.IntRange(1, 8).Draw(t, "n")
		for i := 0; i < n; i++ {
			var name string
			switch rapid.IntRange(0, 9).Draw(t, "nk") {
			case 0:
				name = rapid.SampledFrom(c19Bookkeeping).Draw(t, "bk")
			case 1:
				name = "[Content_Types].xml"
			case 2:
				fam := rapid.SampledFrom([]string{"word/", "xl/", "ppt/"}).Draw(t, "fam")
				name = rapid.SampledFrom(c19Parts[fam]).Draw(t, "part")
			case 3:
				name = rapid.SampledFrom(append([]string{c19JarMarker}, c19APKMarkers...)).Draw(t, "mk")
			case 4:
				if i == 0 {
					// a stored `mimetype` entry that names a type the library does not know: no marker
					c.Entries = append(c.Entries, c19Entry{Name: "mimetype", Method: 0, Stream: rapid.Bool().Draw(t, "mstream"),
						Body: vfB(rapid.SampledFrom([]string{"image/openraster", "application/x-krita", "made/up", "application/vnd.oasis.opendocument.image", "application/vnd.oasis.opendocument.database", "text/plain", "application/zip", "_rels/.rels", "x", "application/epub+zi"}).Draw(t, "unregistered"))})
					continue
				}
				name = rapid.SampledFrom(c19Unrelated).Draw(t, "un")
			default:
				name = rapid.SampledFrom(c19Unrelated).Draw(t, "un")
			}
			c.Entries = append(c.Entries, c19GenEntry(t, name))
		}
	}
	return c
}

// c19Layout finds the local file headers in the raw archive.
type c19Local struct {
	hdr, nameStart, nameLen, next int // next = offset of the following local header (or -1)
}

func c19Layout(raw []byte) []c19Local {
	var out []c19Local
	pk := []byte("PK\x03\x04")
	for off := 0; ; {
		i := bytes.Index(raw[off:], pk)
		if i < 0 {
			break
		}
		h := off + i
		if h+30 > len(raw) {
			break
		}
		nl := int(raw[h+26]) | int(raw[h+27])<<8
		out = append(out, c19Local{hdr: h, nameStart: h + 30, nameLen: nl, next: -1})
		off = h + 4
	}
	for i := 0; i+1 < len(out); i++ {
		out[i].next = out[i+1].hdr
	}
	return out
}

func c19HasPrefixAny(name string, markers ...string) bool {
	for _, m := range markers {
		if strings.HasPrefix(name, m) {
			return true
		}
	}
	return false
}

var c19Shared []byte

func c19Check(c c19Case) vfResult {
	var r vfResult
	if c.Kind == "empty" {
		var buf bytes.Buffer
		w := azip.NewWriter(&buf)
		if c.Want != "" {
			w.SetComment(c.Want)
		}
		w.Close()
		raw := buf.Bytes()
		m := vfDetectAt(raw, 0)
		r.Nontrivial, r.Labels, r.Hash = true, []string{"empty-archive"}, vfHash(raw)
		if m.String() != "application/zip" || m.Parent() == nil || m.Parent().String() != "application/octet-stream" {
			r.Err = fmt.Errorf("an archive without entries (%d bytes, comment %q) is reported as %s instead of plain application/zip", len(raw), c.Want, vfChainStr(m))
		} else if err := vfRoutes(raw, 0, m); err != nil {
			r.Err = err
		}
		return r
	}
	raw, err := c19Build(c.Entries)
	if err != nil {
		return vfFailf("generator bug: zip writer: %v", err)
	}
	if c.Zip64 {
		z := c19ForceZip64(raw)
		if z == nil {
			return vfResult{Skip: "zip64-needs-sizes-in-the-first-local-header"}
		}
		raw = z
		r.Labels = append(r.Labels, "first-entry-zip64")
	}
	zr, err := azip.NewReader(bytes.NewReader(raw), int64(len(raw)))
	if err != nil {
		return vfFailf("generator bug: archive/zip cannot read back its own archive: %v", err)
	}
	if c.Zip64 {
		// the rewritten archive must still be a good one: every entry opens and has its content
		for i, f := range zr.File {
			rc, err := f.Open()
			if err != nil {
				return vfFailf("generator bug: entry %d of the Zip64-rewritten archive does not open: %v", i, err)
			}
			b, err := io.ReadAll(rc)
			rc.Close()
			want := []byte(c.Entries[i].Body)
			if strings.HasSuffix(c.Entries[i].Name, "/") {
				want = nil
			}
			if err != nil || !bytes.Equal(b, want) {
				return vfFailf("generator bug: entry %d of the Zip64-rewritten archive reads back wrongly (%v)", i, err)
			}
		}
	}
	var names []string
	for _, f := range zr.File {
		names = append(names, f.Name)
	}
	if len(names) != len(c.Entries) {
		return vfFailf("generator bug: %d entries written, %d read back", len(c.Entries), len(names))
	}
	loc := c19Layout(raw)
	if len(loc) != len(names) {
		return vfResult{Skip: "embedded-zip-signature-in-data"}
	}
	for i, l := range loc {
		if l.nameLen != len(names[i]) || string(raw[l.nameStart:l.nameStart+l.nameLen]) != names[i] {
			return vfResult{Skip: "embedded-zip-signature-in-data"}
		}
	}
	// known finding F11 (see known_findings.json): the OpenDocument / EPUB signatures compare the
	// bytes at offset 30 without looking at the name length, so a first entry whose NAME merely
	// begins with "mimetype<registered type>" is taken for such a package. Excluded by
	// construction, counted; the pinned case itself is evaluated and reported as KNOWN-FINDING.
	if !c.Pinned && names[0] != "mimetype" && len(raw) > 38 && bytes.HasPrefix(raw[30:], []byte("mimetypeapplication/")) {
		return vfResult{Skip: "known-finding-F11:first-entry-name-begins-with-mimetype+type"}
	}
	m := vfDetectAt(raw, 0)
	got := m.String()
	// the same archive handed over in a buffer the caller re-uses for every archive gets the same
	// verdict: the previous case's archive and then this one go through ONE buffer, back to back,
	// with the same length (both padded / cut to this archive's 256-byte bucket)
	bucket := (len(raw) + 255) / 256 * 256
	if cap(c19Shared) < bucket {
		c19Shared = make([]byte, bucket*2)
	}
	sh := c19Shared[:bucket]
	fill := func(b []byte) {
		n := copy(sh, b)
		for i := n; i < bucket; i++ {
			sh[i] = 0
		}
	}
	if len(c.Prev) > 0 {
		if prev, err := c19Build(c.Prev); err == nil {
			fill(prev)
			vfDetectAt(sh, 0)
			r.Labels = append(r.Labels, "reused-buffer-after-other-archive")
		}
	}
	fill(raw)
	if ms := vfDetectAt(sh, 0); ms.String() != got {
		fresh := append([]byte(nil), sh...)
		if mf := vfDetectAt(fresh, 0); mf.String() == got {
			r.Err = fmt.Errorf("archive reported as %s from a fresh buffer but as %s from a buffer that held another archive of the same length just before; entries: %v", got, ms.String(), names)
			return r
		}
	}
	if err := vfRoutes(raw, 0, m); err != nil {
		r.Err = fmt.Errorf("%v; entries: %v", err, names)
		return r
	}
	r.Labels = append(r.Labels, "kind-"+c.Kind, "verdict-"+got)
	mixed, anyStream, anyRaw := false, false, false
	for _, e := range c.Entries {
		if e.Stream {
			anyStream = true
		} else {
			anyRaw = true
		}
	}
	mixed = anyStream && anyRaw
	desc := func() string {
		var sb strings.Builder
		for i, e := range c.Entries {
			fmt.Fprintf(&sb, "%d:%q(m%d,stream=%v,%dB,extra=%x,flags=%#x) ", i, e.Name, e.Method, e.Stream, len(e.Body), []byte(e.Extra), e.Flags)
		}
		return sb.String()
	}
	nearMiss := false
	for _, n := range names {
		for _, nm := range []string{"Word/", "words/", "word", "xl.xml", "xl", "ppt", "pptx/", "META-INF/MANIFEST", "meta-inf/", "classes.dexx", "res/draw", "lib/word/", "src/xl/"} {
			if n == nm || (strings.HasSuffix(nm, "/") && strings.HasPrefix(n, nm)) {
				nearMiss = true
			}
		}
	}
	parentIsZip := func() bool {
		p := m.Parent()
		return p != nil && p.String() == "application/zip" && p.Parent() != nil && p.Parent().String() == "application/octet-stream"
	}
	switch c.Kind {
	case "ooxml":
		// exactly one family among the first six entries, first entry [Content_Types].xml
		idx := -1
		fams := map[string]bool{}
		for i, n := range names {
			for f := range c19OOXML {
				if strings.HasPrefix(n, f) {
					if i <= 5 {
						fams[f] = true
						if idx < 0 {
							idx = i
						}
					}
				}
			}
		}
		if names[0] != "[Content_Types].xml" || idx < 1 || idx > 5 || len(fams) != 1 {
			return vfResult{Skip: "ooxml-precondition"}
		}
		// a higher-priority zip child (none precedes xlsx/docx/pptx today) or competing family
		if got != c.Want {
			r.Err = fmt.Errorf("OOXML package with the %s part at entry %d is reported as %s; entries: %s", c.Want[strings.LastIndex(c.Want, ".")+1:], idx, vfChainStr(m), desc())
			return r
		}
		if !parentIsZip() {
			r.Err = fmt.Errorf("OOXML verdict whose parent chain is %s", vfChainStr(m))
			return r
		}
		r.Nontrivial = idx >= 2 || nearMiss || mixed
		r.Labels = append(r.Labels, fmt.Sprintf("marker-at-index-%d", idx))
	case "jar":
		hasAPK := false
		for _, n := range names {
			if c19HasPrefixAny(n, c19APKMarkers...) {
				hasAPK = true
			}
		}
		okJar := got == "application/jar"
		okAPK := hasAPK && got == "application/vnd.android.package-archive"
		if !okJar && !okAPK {
			r.Err = fmt.Errorf("archive whose first entry is META-INF/MANIFEST.MF is reported as %s; entries: %s", vfChainStr(m), desc())
			return r
		}
		if !parentIsZip() {
			r.Err = fmt.Errorf("JAR/APK verdict whose parent chain is %s", vfChainStr(m))
			return r
		}
		r.Nontrivial = len(names) >= 2 || mixed
	case "odf":
		if got != c.Want {
			r.Err = fmt.Errorf("archive whose first entry is the stored mimetype file %q is reported as %s; entries: %s", c.Want, vfChainStr(m), desc())
			return r
		}
		if !vfInFamily(m, "application/zip") {
			r.Err = fmt.Errorf("ODF/EPUB verdict without application/zip among its ancestors: %s", vfChainStr(m))
			return r
		}
		r.Nontrivial = len(names) >= 2
	}
	// (d) converse, for every archive
	hasMarker := func(markers ...string) bool {
		for _, n := range names {
			if c19HasPrefixAny(n, markers...) {
				return true
			}
		}
		return false
	}
	switch got {
	case c19OOXML["word/"], c19OOXML["xl/"], c19OOXML["ppt/"]:
		for f, mt := range c19OOXML {
			if got == mt && !hasMarker(f) {
				r.Err = fmt.Errorf("verdict %s but no entry name starts with %q; entries: %s", got, f, desc())
				return r
			}
		}
		if !parentIsZip() {
			r.Err = fmt.Errorf("OOXML verdict whose parent chain is %s", vfChainStr(m))
			return r
		}
	case "application/jar":
		if !hasMarker(c19JarMarker) {
			r.Err = fmt.Errorf("verdict application/jar but no entry name starts with %q; entries: %s", c19JarMarker, desc())
			return r
		}
		if !parentIsZip() {
			r.Err = fmt.Errorf("JAR verdict whose parent chain is %s", vfChainStr(m))
			return r
		}
	case "application/vnd.android.package-archive":
		if !hasMarker(c19APKMarkers...) {
			r.Err = fmt.Errorf("verdict APK but no entry name starts with an APK marker; entries: %s", desc())
			return r
		}
		if !parentIsZip() {
			r.Err = fmt.Errorf("APK verdict whose parent chain is %s", vfChainStr(m))
			return r
		}
	}
	anyMarker := hasMarker("word/", "xl/", "ppt/", c19JarMarker) || hasMarker(c19APKMarkers...)
	odfFirst := false
	if names[0] == "mimetype" && c.Entries[0].Method == 0 {
		for _, v := range c19ODF {
			if strings.HasPrefix(string(c.Entries[0].Body), v) {
				odfFirst = true
			}
		}
	}
	if !anyMarker && !odfFirst {
		r.Labels = append(r.Labels, "no-marker-anywhere")
		if got != "application/zip" || m.Parent() == nil || m.Parent().String() != "application/octet-stream" {
			r.Err = fmt.Errorf("archive without any marker name is reported as %s instead of plain application/zip; entries: %s", vfChainStr(m), desc())
			return r
		}
		if nearMiss {
			r.Nontrivial = true
		}
	}
	if c.Kind == "free" && (nearMiss || mixed) {
		r.Nontrivial = true
	}
	if nearMiss {
		r.Labels = append(r.Labels, "near-miss-name")
	}
	if mixed {
		r.Labels = append(r.Labels, "mixed-descriptor")
	}
	r.Hash = vfHash(raw)
	return r
}

func TestVerif_C19(t *testing.T) {
	defer vfStats.dump()
	vfStats.Property = "C19"
	if vfOnlySub("empty") && !vfReplayMode() && vfShard() == 0 {
		// archives without entries (a writer that was closed at once), with and without a comment:
		// no marker, hence plain application/zip
		for _, comment := range []string{"", "created by verif", strings.Repeat("c", 300)} {
			c := c19Case{Kind: "empty", Want: comment}
			r := c19Check(c)
			vfStats.record(r, func() any { return map[string]any{"sub": "empty", "comment_len": len(comment)} })
			if r.Err != nil {
				vfEnumFail(t, "C19", "gen", c, r.Err)
				return
			}
		}
	}
	if !vfDictSweep(t, "C19", "gen", vfDictLits, func(tok string) []c19Case {
		name := strings.Map(func(r rune) rune {
			if r < 0x20 || r > 0x7e || r == '\\' {
				return -1
			}
			return r
		}, tok)
		body := vfB(strings.ReplaceAll(tok, "PK", "pk"))
		var out []c19Case
		if name != "" && !strings.HasSuffix(name, "/") && !strings.HasPrefix(name, "/") && !strings.Contains(name, "PK") {
			out = append(out, c19Case{Kind: "free", Entries: []c19Entry{{Name: name, Method: 8, Stream: true, Body: vfB("data")}}},
				c19Case{Kind: "free", Entries: []c19Entry{{Name: "readme.txt", Method: 0, Body: vfB("x")}, {Name: "dir/" + name, Method: 8, Body: vfB("data")}}})
		}
		out = append(out, c19Case{Kind: "free", Entries: []c19Entry{{Name: "a.bin", Method: 0, Body: body}, {Name: "b.bin", Method: 0, Stream: true, Body: body}}},
			c19Case{Kind: "free", Entries: []c19Entry{{Name: "a.bin", Method: 0, Body: vfB("x"), Extra: vfB("\xfe\xca\x00\x00")}, {Name: "c.txt", Method: 8, Body: body, Extra: body[:min(len(body), 20)]}}})
		return out
	}, c19Check, "each literal as an entry name (first and below a directory), as stored entry data, and as an extra field") {
		return
	}
	vfRun(t, vfSub[c19Case]{Prop: "C19", Name: "gen", Checks: vfN(40000, 3000000), Gen: c19Gen, Check: c19Check,
		Sample: func(c c19Case) any {
			var es []string
			for _, e := range c.Entries {
				es = append(es, fmt.Sprintf("%s (method %d, stream %v, %d bytes)", e.Name, e.Method, e.Stream, len(e.Body)))
			}
			return map[string]any{"kind": c.Kind, "want": c.Want, "entries": es}
		}})
}
