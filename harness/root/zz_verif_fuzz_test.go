//go:build verif

package mimetype

import (
	"testing"
)

// Native coverage-guided fuzz targets (thorough tier) on the byte-level oracles of C04, C05,
// C07, C09, C11, C13 and C17. Each target calls the same pure check function as the generated
// sub-check whose name it writes into the fail file, so a crasher replays with
// `vcheck.py <ID> --replay <file>` like any other violation.

func vfFuzzCorpus(f *testing.F, add func(b []byte)) {
	for _, s := range vfSeeds() {
		d := s.Data
		if len(d) > 600 {
			d = d[:600]
		}
		add(d)
	}
	for _, p := range vfTextPieces {
		add([]byte(p))
	}
	for _, p := range c04Special {
		add([]byte(p))
	}
	for i, l := range vfDictLits {
		if i%4 == 0 {
			add([]byte(l))
		}
	}
	add([]byte("{\"a\":[1,2,{\"b\":\"\\u00e9\"}],\"type\":\"Feature\"}"))
	add([]byte("a,b,c\n1,2,3\n4,5,6\n"))
	add([]byte("{\"a\":1}\n{\"b\":2}\n[3]\n"))
	add([]byte("caf\xc3\xa9 \xe2\x82\xac \xf0\x9f\x98\x80 \xed\xa0\x80 \xc0\xaf \x93x\x94"))
	add([]byte("<html><head><meta charset=\"koi8-r\"></head>"))
}

func vfFuzzLimit(limit uint32, n int) uint32 {
	// keep reader allocations small: limits up to 1 MiB, biased to the input length
	switch limit % 4 {
	case 0:
		return 0
	case 1:
		return uint32(n)
	case 2:
		return (limit >> 2) % uint32(n+2)
	}
	return (limit >> 2) % (1 << 20)
}

func FuzzVerif_C07(f *testing.F) {
	vfFuzzCorpus(f, func(b []byte) { f.Add(b, uint32(0)); f.Add(b, uint32(1)) })
	f.Fuzz(func(t *testing.T, x []byte, limit uint32) {
		c := c07Case{X: x, Limit: vfFuzzLimit(limit, len(x)), Reader: limit%8 >= 4, PrevLimit: uint32(len(x) + 16)}
		r := vfSub[c07Case]{Check: c07Check}.safeCheck(c)
		if r.Err != nil {
			vfWriteFail("C07", "gen", c, r.Err)
			t.Fatalf("C07: %v", r.Err)
		}
	})
}

func FuzzVerif_C09(f *testing.F) {
	vfFuzzCorpus(f, func(b []byte) { f.Add(b, uint32(0)) })
	f.Fuzz(func(t *testing.T, h []byte, limit uint32) {
		c := c09Case{H: h, Limit: vfFuzzLimit(limit, len(h))}
		r := vfSub[c09Case]{Check: c09Check}.safeCheck(c)
		if r.Err != nil {
			vfWriteFail("C09", "mut", c, r.Err)
			t.Fatalf("C09: %v", r.Err)
		}
	})
}

func FuzzVerif_C11(f *testing.F) {
	vfFuzzCorpus(f, func(b []byte) { f.Add(b, uint32(0)) })
	f.Fuzz(func(t *testing.T, x []byte, limit uint32) {
		c := c11Case{X: x, Via: "plain"}
		if limit%2 == 1 {
			c = c11Case{X: x, Via: "detect", Limit: vfFuzzLimit(limit>>1, len(x))}
		}
		r := vfSub[c11Case]{Check: c11Check}.safeCheck(c)
		if r.Err != nil {
			vfWriteFail("C11", "gen", c, r.Err)
			t.Fatalf("C11: %v", r.Err)
		}
	})
}

func FuzzVerif_C13(f *testing.F) {
	vfFuzzCorpus(f, func(b []byte) { f.Add(b, uint32(0)) })
	f.Fuzz(func(t *testing.T, x []byte, limit uint32) {
		c := c13Txt{X: x, Limit: vfFuzzLimit(limit, len(x))}
		r := vfSub[c13Txt]{Check: c13TxtCheck}.safeCheck(c)
		if r.Err != nil {
			vfWriteFail("C13", "txt", c, r.Err)
			t.Fatalf("C13: %v", r.Err)
		}
	})
}

func FuzzVerif_C17(f *testing.F) {
	vfFuzzCorpus(f, func(b []byte) { f.Add(b) })
	f.Fuzz(func(t *testing.T, x []byte) {
		if len(x) > 1200 {
			x = x[:1200] // every limit up to the length is tried
		}
		c := c17Case{X: x}
		r := vfSub[c17Case]{Check: c17Check}.safeCheck(c)
		if r.Err != nil {
			vfWriteFail("C17", "gen", c, r.Err)
			t.Fatalf("C17: %v", r.Err)
		}
	})
}

func FuzzVerif_C05(f *testing.F) {
	vfFuzzCorpus(f, func(b []byte) { f.Add(b, uint32(0), uint16(0), int16(-1), uint8(0)); f.Add(b, uint32(1), uint16(3), int16(5), uint8(3)) })
	f.Fuzz(func(t *testing.T, x []byte, limit uint32, chunk uint16, faultAt int16, flags uint8) {
		c := c05Case{X: x, Limit: vfFuzzLimit(limit, len(x)), EOFWithData: flags&1 != 0, FaultData: flags&2 != 0, FaultAt: -1, ErrKind: int(flags>>2) % len(c05Errs)}
		if chunk > 0 {
			c.Chunks = []int{int(chunk) % 4097, int(chunk>>3)%17 + 1}
		}
		if faultAt >= 0 {
			c.FaultAt = int(faultAt) % (len(x) + 1)
		}
		r := vfSub[c05Case]{Check: c05Check}.safeCheck(c)
		if r.Err != nil {
			vfWriteFail("C05", "gen", c, r.Err)
			t.Fatalf("C05: %v", r.Err)
		}
	})
}

func FuzzVerif_C04(f *testing.F) {
	vfFuzzCorpus(f, func(b []byte) { f.Add(b, []byte("\x00\x01tail"), []byte("plain tail")) })
	f.Fuzz(func(t *testing.T, h, t1, t2 []byte) {
		c := c04Tail{H: h, T1: t1, T2: t2}
		r := vfSub[c04Tail]{Check: c04TailCheck}.safeCheck(c)
		if r.Err != nil {
			vfWriteFail("C04", "tail", c, r.Err)
			t.Fatalf("C04: %v", r.Err)
		}
	})
}
