//go:build verif

package mimetype

import (
	"strings"

	"pgregory.net/rapid"
)

// ---------------------------------------------------------------------------------
// Reference recogniser R for the *relaxed* JSON grammar of property C09 (also used for
// NDJSON lines in C13). It is written from the property text, not from the parser:
//
//   document := ws (object | array) ws            (scalars too when topScalarOK)
//   object   := '{' ws [ member { ws ',' ws member } [ ws ',' ] ] ws '}'
//   member   := string ws ':' ws value
//   array    := '[' ws [ value { ws ',' ws value } [ ws ',' ] ] ws ']'
//   string   := '"' { any byte except '"' and '\' | '\' ["\/bfnrt] | '\u' 4 hex } '"'
//   number   := maximal run over [-+0-9.eE] starting with [-.0-9] and containing a digit
//               (deliberately at least as liberal as any sane number lexer)
//   literal  := true | false | null
//   ws       := SP | TAB | LF | CR
//
// It returns whether h is a member of the language and whether h is a prefix of some
// member. Every non-error state of this grammar is completable, so "prefix" is exactly
// "no error so far". There is no depth limit and no UTF-8 validation.

const (
	rTopBefore = iota
	rTopAfter
	rArrFirst
	rArrAfterComma
	rArrAfterVal
	rObjFirst
	rObjAfterComma
	rObjColon
	rObjVal
	rObjAfterVal
	rStr
	rStrEsc
	rStrU
	rNum
	rLit
)

type vfJSONRefT struct {
	state    int
	stack    []byte
	strIsKey bool
	uLeft    int
	numDigit bool
	lit      string
	litPos   int
	err      bool
	topSc    bool
}

func rIsWS(c byte) bool     { return c == ' ' || c == '\t' || c == '\n' || c == '\r' }
func rIsNumCh(c byte) bool  { return (c >= '0' && c <= '9') || c == '-' || c == '+' || c == '.' || c == 'e' || c == 'E' }
func rIsNumSt(c byte) bool  { return (c >= '0' && c <= '9') || c == '-' || c == '.' }
func rIsHex(c byte) bool    { return (c >= '0' && c <= '9') || (c >= 'a' && c <= 'f') || (c >= 'A' && c <= 'F') }
func rIsDigit(c byte) bool  { return c >= '0' && c <= '9' }

func (r *vfJSONRefT) valueDone() {
	if len(r.stack) == 0 {
		r.state = rTopAfter
	} else if r.stack[len(r.stack)-1] == 'a' {
		r.state = rArrAfterVal
	} else {
		r.state = rObjAfterVal
	}
}

// startValue handles the first byte of a value; returns false if c cannot start one.
func (r *vfJSONRefT) startValue(c byte, scalarOK bool) bool {
	switch {
	case c == '[':
		r.stack = append(r.stack, 'a')
		r.state = rArrFirst
	case c == '{':
		r.stack = append(r.stack, 'o')
		r.state = rObjFirst
	case !scalarOK:
		return false
	case c == '"':
		r.state, r.strIsKey = rStr, false
	case c == 't':
		r.state, r.lit, r.litPos = rLit, "true", 1
	case c == 'f':
		r.state, r.lit, r.litPos = rLit, "false", 1
	case c == 'n':
		r.state, r.lit, r.litPos = rLit, "null", 1
	case rIsNumSt(c):
		r.state, r.numDigit = rNum, rIsDigit(c)
	default:
		return false
	}
	return true
}

func (r *vfJSONRefT) closeContainer(kind byte) bool {
	if len(r.stack) == 0 || r.stack[len(r.stack)-1] != kind {
		return false
	}
	r.stack = r.stack[:len(r.stack)-1]
	r.valueDone()
	return true
}

func (r *vfJSONRefT) feed(c byte) {
	if r.err {
		return
	}
again:
	switch r.state {
	case rTopBefore:
		if rIsWS(c) {
			return
		}
		if !r.startValue(c, r.topSc) {
			r.err = true
		}
	case rTopAfter:
		if !rIsWS(c) {
			r.err = true
		}
	case rArrFirst, rArrAfterComma:
		if rIsWS(c) {
			return
		}
		if c == ']' {
			if !r.closeContainer('a') {
				r.err = true
			}
			return
		}
		if !r.startValue(c, true) {
			r.err = true
		}
	case rArrAfterVal:
		switch {
		case rIsWS(c):
		case c == ',':
			r.state = rArrAfterComma
		case c == ']':
			if !r.closeContainer('a') {
				r.err = true
			}
		default:
			r.err = true
		}
	case rObjFirst, rObjAfterComma:
		switch {
		case rIsWS(c):
		case c == '}':
			if !r.closeContainer('o') {
				r.err = true
			}
		case c == '"':
			r.state, r.strIsKey = rStr, true
		default:
			r.err = true
		}
	case rObjColon:
		switch {
		case rIsWS(c):
		case c == ':':
			r.state = rObjVal
		default:
			r.err = true
		}
	case rObjVal:
		if rIsWS(c) {
			return
		}
		if !r.startValue(c, true) {
			r.err = true
		}
	case rObjAfterVal:
		switch {
		case rIsWS(c):
		case c == ',':
			r.state = rObjAfterComma
		case c == '}':
			if !r.closeContainer('o') {
				r.err = true
			}
		default:
			r.err = true
		}
	case rStr:
		switch c {
		case '"':
			if r.strIsKey {
				r.state = rObjColon
			} else {
				r.valueDone()
			}
		case '\\':
			r.state = rStrEsc
		}
	case rStrEsc:
		switch c {
		case '"', '\\', '/', 'b', 'f', 'n', 'r', 't':
			r.state = rStr
		case 'u':
			r.state, r.uLeft = rStrU, 4
		default:
			r.err = true
		}
	case rStrU:
		if !rIsHex(c) {
			r.err = true
			return
		}
		r.uLeft--
		if r.uLeft == 0 {
			r.state = rStr
		}
	case rNum:
		if rIsNumCh(c) {
			if rIsDigit(c) {
				r.numDigit = true
			}
			return
		}
		if !r.numDigit {
			r.err = true
			return
		}
		r.valueDone()
		goto again
	case rLit:
		if r.litPos < len(r.lit) && c == r.lit[r.litPos] {
			r.litPos++
			if r.litPos == len(r.lit) {
				r.valueDone()
			}
			return
		}
		r.err = true
	}
}

// vfJSONRef runs R over h. member: h is in the language; prefix: h is a prefix of a member.
func vfJSONRef(h []byte, topScalarOK bool) (member, prefix bool) {
	r := vfJSONRefT{topSc: topScalarOK}
	for _, c := range h {
		r.feed(c)
		if r.err {
			return false, false
		}
	}
	switch r.state {
	case rTopAfter:
		return true, true
	case rNum:
		return r.numDigit && len(r.stack) == 0, true
	}
	return false, true
}

// ---------------------------------------------------------------------------------
// Generator of strictly valid RFC 8259 documents, emitted as a token list so that the
// position of every token is known to the check.

type jtok struct {
	Kind byte // '{' '}' '[' ']' ':' ',' 's'tring 'n'umber 'l'iteral 'w'hitespace
	Text string
}

type jdoc struct {
	toks []jtok
}

func (d *jdoc) add(k byte, s string) { d.toks = append(d.toks, jtok{k, s}) }

func (d *jdoc) String() string {
	var sb strings.Builder
	for _, t := range d.toks {
		sb.WriteString(t.Text)
	}
	return sb.String()
}

var jStrPieces = []string{
	"a", "key", "Z", "0", " ", ",", ":", "{", "}", "[", "]", ",}", "],", "\\\"", "\\\\", "\\/", "\\b", "\\f", "\\n", "\\r", "\\t",
	"\\u00e9", "\\uD83D\\uDE00", "\\u0000", "\\uFfFf", "\xc3\xa9", "\xe2\x82\xac", "\xf0\x9f\x98\x80", "\x7f", "'", "#", "<", "//", "/*", "true", "null", "-1",
	"type", "Feature", "version", "log", "asset",
	// C1 controls, DEL, line separators (all legal unescaped); lone and reversed surrogate escapes (legal per RFC 8259)
	"\xc2\x80", "\xc2\x85", "\xc2\x9f", "\xc2\xa0", "\xe2\x80\xa8", "\xef\xbf\xbd", "\\ud83d", "\\uDC00", "\\ud800\\u0041", "\\uDE00\\uD83D", "\\ud83d\\n",
	// words that other signature checks look for at small fixed offsets
	"skip", "free", "moov", "mdat", "pnot", "wide", "ftyp", "ftypqt  ", "RIFF", "WAVE", "WEBP", "OggS", "fLaC", "MThd", "FORM", "AIFF", "GIF89a", "BM", "MZ", "ID3", "%PDF-", "PK", "8BPS", "II*", "icns", "PAR1", "Rar!", "BZh", "7z", "wOFF", "OTTO", "ttcf", "TZif", "LZIP", "MSCF", "DJVU", "AT&TFORM", "-----BEGIN PKCS7", "d8:announce", "4500",
}

// jPlanted: literals that a JSON text can legitimately carry at the offset where a higher-priority
// signature expects them (pure ASCII, no control bytes). Only a document containing one of them
// may be reported as something else than JSON.
var jPlanted = []string{"<svg", "BOOKMOBI", "DICM", "GPAT", "GIMP", "Standard Jet DB", "Standard ACE DB"}

var jNumbers = []string{"0", "-0", "1", "-1", "12", "1.5", "-0.25", "1e5", "1E5", "1e+5", "2E-3", "0.0e0", "123456789012345678901234567890", "-1.5e-10", "9", "10"}

var jWS = []string{"", "", "", "", " ", "  ", "\n", "\t", "\r\n", "\r", " \n\t "}

func jGenWS(t *rapid.T, d *jdoc) {
	if s := rapid.SampledFrom(jWS).Draw(t, "ws"); s != "" {
		d.add('w', s)
	}
}

func jGenString(t *rapid.T) string {
	n := rapid.IntRange(0, 4).Draw(t, "nstr")
	var sb strings.Builder
	sb.WriteByte('"')
	for i := 0; i < n; i++ {
		sb.WriteString(rapid.SampledFrom(jStrPieces).Draw(t, "sp"))
	}
	sb.WriteByte('"')
	return sb.String()
}

func jGenValue(t *rapid.T, d *jdoc, depth int) {
	k := rapid.IntRange(0, 9).Draw(t, "vk")
	if depth <= 0 && k >= 6 {
		k -= 6
	}
	switch k {
	case 0, 1:
		d.add('s', jGenString(t))
	case 2, 3:
		d.add('n', rapid.SampledFrom(jNumbers).Draw(t, "num"))
	case 4, 5:
		d.add('l', rapid.SampledFrom([]string{"true", "false", "null"}).Draw(t, "lit"))
	case 6, 7:
		jGenArray(t, d, depth-1)
	default:
		jGenObject(t, d, depth-1)
	}
}

func jGenArray(t *rapid.T, d *jdoc, depth int) {
	d.add('[', "[")
	n := rapid.IntRange(0, 4).Draw(t, "nitems")
	for i := 0; i < n; i++ {
		if i > 0 {
			d.add(',', ",")
		}
		jGenWS(t, d)
		jGenValue(t, d, depth)
		jGenWS(t, d)
	}
	if n == 0 {
		jGenWS(t, d)
	}
	d.add(']', "]")
}

func jGenObject(t *rapid.T, d *jdoc, depth int) {
	d.add('{', "{")
	n := rapid.IntRange(0, 4).Draw(t, "nmembers")
	for i := 0; i < n; i++ {
		if i > 0 {
			d.add(',', ",")
		}
		jGenWS(t, d)
		d.add('s', jGenString(t))
		jGenWS(t, d)
		d.add(':', ":")
		jGenWS(t, d)
		jGenValue(t, d, depth)
		jGenWS(t, d)
	}
	if n == 0 {
		jGenWS(t, d)
	}
	d.add('}', "}")
}

// jGenDoc draws a whole document: optional leading whitespace, an object or array, and
// optional trailing whitespace.
func jGenDoc(t *rapid.T, maxDepth int) *jdoc {
	d := &jdoc{}
	jGenWS(t, d)
	if rapid.Bool().Draw(t, "topobj") {
		jGenObject(t, d, maxDepth-1)
	} else {
		jGenArray(t, d, maxDepth-1)
	}
	jGenWS(t, d)
	return d
}

// jDeepDoc builds a nesting chain of the given depth (number of open containers around
// the innermost scalar, or of empty innermost container when leaf == "").
func jDeepDoc(shape int, depth int, leaf string, pad string) string {
	var sb strings.Builder
	closers := make([]byte, 0, depth)
	for i := 0; i < depth; i++ {
		obj := shape == 1 || (shape == 2 && i%2 == 1)
		if obj {
			sb.WriteString("{" + pad + "\"k\":" + pad)
			closers = append(closers, '}')
		} else {
			sb.WriteString("[" + pad)
			closers = append(closers, ']')
		}
	}
	// the innermost container holds the leaf (possibly nothing)
	sb.WriteString(leaf)
	for i := len(closers) - 1; i >= 0; i-- {
		sb.WriteByte(closers[i])
	}
	return sb.String()
}
