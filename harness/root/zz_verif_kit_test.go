//go:build verif

// Shared machinery for the verification harness. These files are injected into a
// staged copy of the repository (package mimetype) by /verif/vcheck.py and are never
// part of /repo. tree.go declares package-level variables named zip, tar, json, xml,
// csv, text, html ..., so standard-library packages of those names are aliased.
package mimetype

import (
	"bufio"
	"bytes"
	"encoding/binary"
	"encoding/hex"
	ejson "encoding/json"
	"flag"
	"fmt"
	"hash/fnv"
	"io"
	"os"
	"path/filepath"
	"runtime/debug"
	"sort"
	"strconv"
	"strings"
	"sync"
	"sync/atomic"
	"testing"
	"time"

	"pgregory.net/rapid"
)

// ---------------------------------------------------------------------------------
// environment

func vfEnv(k, def string) string {
	if v := os.Getenv(k); v != "" {
		return v
	}
	return def
}

func vfEnvInt(k string, def int) int {
	if v := os.Getenv(k); v != "" {
		if n, err := strconv.Atoi(v); err == nil {
			return n
		}
	}
	return def
}

func vfThorough() bool { return vfEnv("VERIF_TIER", "quick") == "thorough" }
func vfShard() int     { return vfEnvInt("VERIF_SHARD", 0) }
func vfNShards() int   { return vfEnvInt("VERIF_NSHARDS", 1) }
func vfVerifDir() string {
	return vfEnv("VERIF_DIR", "/verif")
}

// vfN picks a case count for the tier and applies VERIF_SCALE (a float, default 1).
func vfN(quick, thorough int) int {
	n := quick
	if vfThorough() {
		n = thorough
	}
	if s := os.Getenv("VERIF_SCALE"); s != "" {
		if f, err := strconv.ParseFloat(s, 64); err == nil && f > 0 {
			n = int(float64(n) * f)
		}
	}
	if n < 1 {
		n = 1
	}
	return n
}

func vfSplitmix(x uint64) uint64 {
	x += 0x9e3779b97f4a7c15
	x = (x ^ (x >> 30)) * 0xbf58476d1ce4e5b9
	x = (x ^ (x >> 27)) * 0x94d049bb133111eb
	return x ^ (x >> 31)
}

// vfSeed derives the rapid seed for (VERIF_SEED, property, sub-check, shard); never 0,
// because rapid treats 0 as "pick a random seed".
func vfSeed(prop, sub string) uint64 {
	base := uint64(vfEnvInt("VERIF_SEED", 1))
	h := fnv.New64a()
	h.Write([]byte(prop + "/" + sub))
	s := vfSplitmix(base ^ vfSplitmix(h.Sum64()) ^ vfSplitmix(uint64(vfShard())+0x5bd1e995))
	if s == 0 {
		s = 1
	}
	return s
}

// ---------------------------------------------------------------------------------
// readable byte strings in JSON

// vfB is a byte string that serialises as a Go-style ASCII-quoted string, so that
// samples and replay files stay readable and round-trip exactly.
type vfB []byte

func (b vfB) MarshalJSON() ([]byte, error) {
	q := strconv.QuoteToASCII(string(b))
	return ejson.Marshal(q[1 : len(q)-1])
}

func (b *vfB) UnmarshalJSON(d []byte) error {
	var s string
	if err := ejson.Unmarshal(d, &s); err != nil {
		return err
	}
	u, err := vfUnquote(s)
	if err != nil {
		return err
	}
	*b = vfB(u)
	return nil
}

func vfUnquote(s string) (string, error) {
	// s is the inside of a QuoteToASCII string: only `"` needs care (it is escaped as \").
	return strconv.Unquote(`"` + s + `"`)
}

func vfQ(b []byte) string {
	if len(b) > 160 {
		return strconv.QuoteToASCII(string(b[:150])) + fmt.Sprintf("...(+%d bytes)", len(b)-150)
	}
	return strconv.QuoteToASCII(string(b))
}

// ---------------------------------------------------------------------------------
// statistics / evidence

type vfStatsT struct {
	mu          sync.Mutex
	Property    string            `json:"property"`
	Evaluations int64             `json:"evaluations"`
	Nontrivial  int64             `json:"nontrivial"`
	Distinct    int64             `json:"distinct_counted"` // distinct by construction (enumerations)
	Capped      bool              `json:"capped"`
	Exhaustive  bool              `json:"exhaustive"`
	Labels      map[string]int64  `json:"labels"`
	Excluded    map[string]int64  `json:"excluded"`
	Samples     []any             `json:"samples"`
	Known       []string          `json:"known"`
	Notes       []string          `json:"notes"`
	Subchecks   map[string]string `json:"subchecks"`
	WallS       float64           `json:"wall_s"`
	hashes      map[uint64]struct{}
	start       time.Time
	fast        map[string]int64 // single-goroutine label counters (enumerations)
}

func (s *vfStatsT) labelFast(l string) {
	if s.fast == nil {
		s.fast = map[string]int64{}
	}
	s.fast[l]++
}

func (s *vfStatsT) flushFast() {
	s.mu.Lock()
	for k, v := range s.fast {
		s.Labels[k] += v
	}
	s.fast = nil
	s.mu.Unlock()
}

const vfHashCap = 120000

var vfStats = &vfStatsT{
	Labels: map[string]int64{}, Excluded: map[string]int64{}, Subchecks: map[string]string{},
	hashes: map[uint64]struct{}{}, start: time.Now(),
}

func vfHash(parts ...[]byte) uint64 {
	h := fnv.New64a()
	var l [8]byte
	for _, p := range parts {
		binary.LittleEndian.PutUint64(l[:], uint64(len(p)))
		h.Write(l[:])
		h.Write(p)
	}
	return h.Sum64()
}

func vfHashU(vals ...uint64) []byte {
	b := make([]byte, 8*len(vals))
	for i, v := range vals {
		binary.LittleEndian.PutUint64(b[i*8:], v)
	}
	return b
}

// vfResult is what every check function returns for one case.
type vfResult struct {
	Labels     []string
	Nontrivial bool
	Hash       uint64 // identity of the case for distinct counting (0 = not tracked)
	Err        error
	Skip       string // non-empty: case excluded (counted under Excluded[Skip]); not an evaluation
	N          int64  // number of evaluations this case stands for (0 means 1)
	LabelN     map[string]int64
}

func vfFailf(format string, a ...any) vfResult { return vfResult{Err: fmt.Errorf(format, a...)} }

// record notes one evaluated case. sample is called only when the case is kept.
func (s *vfStatsT) record(r vfResult, sample func() any) {
	s.mu.Lock()
	defer s.mu.Unlock()
	if r.Skip != "" {
		s.Excluded[r.Skip]++
		return
	}
	if r.N > 0 {
		s.Evaluations += r.N
	} else {
		s.Evaluations++
	}
	for _, l := range r.Labels {
		s.Labels[l]++
	}
	for l, n := range r.LabelN {
		s.Labels[l] += n
	}
	if !r.Nontrivial {
		return
	}
	s.Nontrivial++
	fresh := true
	if r.Hash != 0 {
		if _, ok := s.hashes[r.Hash]; ok {
			fresh = false
		} else if len(s.hashes) < vfHashCap {
			s.hashes[r.Hash] = struct{}{}
		} else {
			s.Capped = true
			fresh = false
		}
	}
	if fresh && sample != nil && vfKeepSample(s.Nontrivial) && len(s.Samples) < 16 {
		s.Samples = append(s.Samples, sample())
	}
}

// recordBulk is used by exhaustive enumerations, where cases are distinct by construction.
func (s *vfStatsT) recordBulk(evals, nontrivial int64) {
	s.mu.Lock()
	s.Evaluations += evals
	s.Nontrivial += nontrivial
	s.Distinct += nontrivial
	s.mu.Unlock()
}

func (s *vfStatsT) label(l string, n int64) {
	s.mu.Lock()
	s.Labels[l] += n
	s.mu.Unlock()
}

func (s *vfStatsT) exclude(l string) {
	s.mu.Lock()
	s.Excluded[l]++
	s.mu.Unlock()
}

func (s *vfStatsT) addSample(v any) {
	s.mu.Lock()
	if len(s.Samples) < 24 {
		s.Samples = append(s.Samples, v)
	}
	s.mu.Unlock()
}

func (s *vfStatsT) note(format string, a ...any) {
	s.mu.Lock()
	if len(s.Notes) < 64 {
		s.Notes = append(s.Notes, fmt.Sprintf(format, a...))
	}
	s.mu.Unlock()
}

func vfKeepSample(n int64) bool {
	switch n {
	case 1, 2, 3, 5, 8, 13, 50, 200, 1000, 5000, 20000, 100000, 500000, 2000000:
		return true
	}
	return false
}

func (s *vfStatsT) dump() {
	out := os.Getenv("VERIF_OUT")
	if out == "" {
		return
	}
	s.mu.Lock()
	defer s.mu.Unlock()
	s.WallS = time.Since(s.start).Seconds()
	b, err := ejson.MarshalIndent(s, "", " ")
	if err != nil {
		panic(err)
	}
	if err := os.WriteFile(out, b, 0o644); err != nil {
		panic(err)
	}
	hs := make([]byte, 0, 8*len(s.hashes))
	var w [8]byte
	for h := range s.hashes {
		binary.LittleEndian.PutUint64(w[:], h)
		hs = append(hs, w[:]...)
	}
	_ = os.WriteFile(out+".hashes", hs, 0o644)
}

// ---------------------------------------------------------------------------------
// failure files

type vfFailFile struct {
	Property string           `json:"property"`
	Sub      string           `json:"sub"`
	Case     ejson.RawMessage `json:"case"`
	Error    string           `json:"error"`
	// History: the cases of the same sub-check that this process executed immediately before
	// the failing one (oldest first). A replay runs them first, without garbage collection in
	// between, so that failures which depend on what earlier detections left behind (pooled
	// scratch state, caches, a changed limit) reproduce from the file.
	History []ejson.RawMessage `json:"history,omitempty"`
}

// ring of the most recently executed cases (values, marshalled only when needed)
type vfHistEntry struct {
	sub string
	c   any
}

var (
	vfHistMu   sync.Mutex
	vfHistRing [7]vfHistEntry
	vfHistN    int
)

func vfHistPush(sub string, c any) {
	vfHistMu.Lock()
	vfHistRing[vfHistN%len(vfHistRing)] = vfHistEntry{sub, c}
	vfHistN++
	vfHistMu.Unlock()
}

// vfHistBefore returns the cases executed before the most recent one, oldest first.
func vfHistBefore(sub string) []ejson.RawMessage {
	vfHistMu.Lock()
	defer vfHistMu.Unlock()
	var out []ejson.RawMessage
	n := len(vfHistRing)
	for k := n - 1; k >= 1; k-- { // skip k=0: the most recent push is the case itself
		i := vfHistN - 1 - k
		if i < 0 {
			continue
		}
		e := vfHistRing[i%n]
		if e.sub != sub || e.c == nil {
			continue
		}
		if b, err := ejson.Marshal(e.c); err == nil && len(b) < 1<<18 {
			out = append(out, b)
		}
	}
	return out
}

var vfFailMu sync.Mutex
var vfFailBest = map[string]int{}

// vfWriteFail keeps, per sub-check, the smallest failing case seen so far (rapid re-runs
// the shrunk case, so the file ends up holding the minimal reproduction).
func vfWriteFail(prop, sub string, c any, err error) {
	out := os.Getenv("VERIF_OUT")
	if out == "" {
		return
	}
	cb, merr := ejson.Marshal(c)
	if merr != nil {
		cb = []byte(strconv.Quote(fmt.Sprintf("unserialisable case: %v", merr)))
	}
	vfFailMu.Lock()
	defer vfFailMu.Unlock()
	if best, ok := vfFailBest[sub]; ok && best <= len(cb) {
		return
	}
	vfFailBest[sub] = len(cb)
	b, _ := ejson.MarshalIndent(vfFailFile{Property: prop, Sub: sub, Case: cb, Error: err.Error(), History: vfHistBefore(sub)}, "", " ")
	name := out + ".fail." + sub + ".json"
	_ = os.WriteFile(name, b, 0o644)
}

// vfJournal records the case that is about to run, so that a fatal runtime error (which
// cannot be recovered in-process) still leaves a replayable input behind.
var (
	vfJournalMu sync.Mutex
	vfJournalF  *os.File
)

func vfJournal(prop, sub string, c any) {
	out := os.Getenv("VERIF_OUT")
	if out == "" || os.Getenv("VERIF_FUZZ") != "" {
		return
	}
	cb, err := ejson.Marshal(c)
	if err != nil {
		return
	}
	b, _ := ejson.Marshal(vfFailFile{Property: prop, Sub: sub, Case: cb, Error: "process died while running this case (journal)"})
	vfJournalMu.Lock()
	defer vfJournalMu.Unlock()
	if vfJournalF == nil {
		f, err := os.Create(out + ".journal.json")
		if err != nil {
			return
		}
		vfJournalF = f
	}
	_, _ = vfJournalF.WriteAt(b, 0)
	_ = vfJournalF.Truncate(int64(len(b)))
}

// vfWatchdog: liveness oracle for "always terminates". A detection normally takes microseconds;
// a case that has not returned after `budget` (tens of seconds, i.e. 4-6 orders of magnitude
// more, also on a heavily loaded machine) is reported as a failure with the case as replay file.
// The process must exit, because the hanging call cannot be interrupted.
var (
	vfWatchOnce  sync.Once
	vfWatchStart atomic.Int64 // unix nanos of the running case, 0 = idle
	vfWatchCase  atomic.Pointer[vfHistEntry]
	vfWatchProp  atomic.Pointer[string]
)

func vfWatchdog(prop, sub string, c any, budget time.Duration) func() {
	vfWatchOnce.Do(func() {
		go func() {
			for {
				time.Sleep(500 * time.Millisecond)
				st := vfWatchStart.Load()
				if st == 0 || time.Since(time.Unix(0, st)) < budget {
					continue
				}
				e, p := vfWatchCase.Load(), vfWatchProp.Load()
				if e != nil && p != nil {
					vfWriteFail(*p, e.sub, e.c, fmt.Errorf("no answer after %v: the call did not terminate (a detection normally returns within microseconds)", budget))
				}
				fmt.Println("WATCHDOG: case did not terminate; exiting")
				os.Exit(3)
			}
		}()
	})
	vfWatchCase.Store(&vfHistEntry{sub, c})
	vfWatchProp.Store(&prop)
	vfWatchStart.Store(time.Now().UnixNano())
	return func() { vfWatchStart.Store(0) }
}

func vfScratchDir() string {
	if out := os.Getenv("VERIF_OUT"); out != "" {
		return filepath.Dir(out)
	}
	return os.TempDir()
}

// vfFileNames are the names a file under test gets: DetectFile must look at the bytes only.
var vfFileNames = []string{"%s.bin", "%s", "%s.js", "%s.json", "%s.svg", "%s.html", "%s.txt", "%s.csv", "%s.xml", "%s.mjs", "%s.png", "%s.zip", "%s.tar.gz", "%s with space.PDF", ".%s", "%s.geojson", "%s.gz"}

// vfWriteFile stores x in the scratch directory under a name chosen by `variant` (extension,
// no extension, hidden file) and returns the path to hand to DetectFile: the file itself, or a
// relative-target symlink, or a symlink to a symlink to it.
func vfWriteFile(stem string, x []byte, variant uint64) string {
	dir := vfScratchDir()
	name := fmt.Sprintf(vfFileNames[variant%uint64(len(vfFileNames))], stem)
	p := filepath.Join(dir, name)
	if err := os.WriteFile(p, x, 0o644); err != nil {
		panic(err)
	}
	switch (variant / 32) % 5 {
	case 4:
		// <dir>/<symlink to a sub-directory elsewhere>/../<name>: the kernel resolves the link
		// before "..", so this names the file NEXT TO the link's target; a decoy with other
		// content sits where a purely textual clean-up of the path would look
		other := filepath.Join(dir, stem+"-elsewhere")
		link := filepath.Join(dir, stem+"-dirlink")
		os.Remove(link)
		if os.MkdirAll(filepath.Join(other, "sub"), 0o755) == nil && os.Symlink(filepath.Join(other, "sub"), link) == nil {
			decoy := []byte("%PDF-1.4\n%\xe2\xe3\xcf\xd3\ndecoy\n")
			if bytes.HasPrefix(x, []byte("%PDF")) {
				decoy = []byte("\x89PNG\r\n\x1a\ndecoy")
			}
			if os.WriteFile(filepath.Join(other, name), x, 0o644) == nil && os.WriteFile(p, decoy, 0o644) == nil {
				return link + string(filepath.Separator) + ".." + string(filepath.Separator) + name
			}
		}
	case 1:
		l1 := filepath.Join(dir, stem+".link")
		os.Remove(l1)
		if os.Symlink(name, l1) == nil { // relative target
			return l1
		}
	case 2:
		l1, l2 := filepath.Join(dir, stem+".link1"), filepath.Join(dir, stem+".link2.txt")
		os.Remove(l1)
		os.Remove(l2)
		if os.Symlink(p, l1) == nil && os.Symlink(l1, l2) == nil { // absolute target, chain of two
			return l2
		}
	}
	return p
}

// ---------------------------------------------------------------------------------
// known findings

type vfKnownT struct {
	Property  string           `json:"property"`
	ID        string           `json:"id"`
	Status    string           `json:"status"` // open | fixed
	Sub       string           `json:"sub"`
	Case      ejson.RawMessage `json:"case"`
	WhatFails string           `json:"what_fails"`
	Commit    string           `json:"commit,omitempty"`
}

func vfLoadKnown(prop string) []vfKnownT {
	b, err := os.ReadFile(filepath.Join(vfVerifDir(), "known_findings.json"))
	if err != nil {
		return nil
	}
	var f struct {
		Findings []vfKnownT `json:"findings"`
	}
	if err := ejson.Unmarshal(b, &f); err != nil {
		panic("known_findings.json: " + err.Error())
	}
	var out []vfKnownT
	for _, k := range f.Findings {
		if k.Property == prop {
			out = append(out, k)
		}
	}
	return out
}

// ---------------------------------------------------------------------------------
// generic property runner

// vfSub is one sub-check of a property: a generator, a pure check, a case count.
type vfSub[C any] struct {
	Prop   string
	Name   string
	Checks int
	Gen    func(*rapid.T) C
	Check  func(C) vfResult
	Sample func(C) any // optional readable rendering; default: the case itself
}

func (s vfSub[C]) sample(c C) any {
	if s.Sample != nil {
		return s.Sample(c)
	}
	return map[string]any{"sub": s.Name, "case": c}
}

// safeCheck turns a panic inside the check (i.e. inside the code under test) into a failure.
func (s vfSub[C]) safeCheck(c C) (r vfResult) {
	defer func() {
		if p := recover(); p != nil {
			r = vfResult{Err: fmt.Errorf("panic: %v", p)}
		}
	}()
	vfHistPush(s.Name, c)
	return s.Check(c)
}

// runFile replays every case stored in a JSON file (one case, or a list of cases).
func (s vfSub[C]) decode(raw ejson.RawMessage) (C, error) {
	var c C
	dec := ejson.NewDecoder(bytes.NewReader(raw))
	dec.DisallowUnknownFields()
	err := dec.Decode(&c)
	return c, err
}

// vfRun executes one sub-check: replay mode, regression corpus, known findings, then rapid.
func vfRun[C any](t *testing.T, s vfSub[C]) {
	t.Helper()
	defer vfStats.dump()
	vfStats.Property = s.Prop

	// 1. explicit replay of one saved case
	if rp := os.Getenv("VERIF_REPLAY"); rp != "" {
		b, err := os.ReadFile(rp)
		if err != nil {
			t.Fatalf("replay: %v", err)
		}
		var ff vfFailFile
		if err := ejson.Unmarshal(b, &ff); err != nil {
			t.Fatalf("replay: %v", err)
		}
		if ff.Sub != s.Name {
			return
		}
		c, err := s.decode(ff.Case)
		if err != nil {
			t.Fatalf("replay: case does not decode: %v", err)
		}
		// re-create the recorded history first; no GC in between (it would empty the sync.Pools)
		oldGC := debug.SetGCPercent(-1)
		for _, hraw := range ff.History {
			if hc, err := s.decode(hraw); err == nil {
				_ = s.safeCheck(hc)
			}
		}
		r := s.safeCheck(c)
		debug.SetGCPercent(oldGC)
		vfStats.record(r, func() any { return s.sample(c) })
		vfStats.Subchecks[s.Name] = fmt.Sprintf("replayed (after %d history cases)", len(ff.History))
		if r.Err != nil {
			vfWriteFail(s.Prop, s.Name, c, r.Err)
			t.Fatalf("REPLAY-FAILS %s/%s: %v", s.Prop, s.Name, r.Err)
		}
		t.Logf("REPLAY-PASSES %s/%s", s.Prop, s.Name)
		return
	}

	// 2. known findings: pinned inputs. An open finding that still fails is reported as
	// KNOWN-FINDING; the pinned case's exact serialisation is remembered so that the same
	// case met again during generation is not reported twice. A fixed finding suppresses
	// nothing: its case is treated exactly like the regression corpus.
	openKnown := map[string]string{}
	for _, k := range vfLoadKnown(s.Prop) {
		if k.Sub != s.Name {
			continue
		}
		c, err := s.decode(k.Case)
		if err != nil {
			t.Fatalf("known finding %s does not decode: %v", k.ID, err)
		}
		r := s.safeCheck(c)
		switch {
		case k.Status == "open" && r.Err != nil:
			canon, _ := ejson.Marshal(c)
			openKnown[string(canon)] = k.ID
			vfStats.mu.Lock()
			vfStats.Known = append(vfStats.Known, fmt.Sprintf("KNOWN-FINDING: property=%s %s: %s", s.Prop, k.ID, k.WhatFails))
			vfStats.mu.Unlock()
		case k.Status == "open":
			vfStats.note("known finding %s no longer reproduces", k.ID)
		case r.Err != nil: // fixed, but fails again
			vfWriteFail(s.Prop, s.Name, c, r.Err)
			t.Fatalf("regression of fixed finding %s (%s): %v", k.ID, k.Commit, r.Err)
		}
	}

	// 3. regression corpus (shrunk failures kept from earlier runs), shard 0 only
	if vfShard() == 0 {
		dir := filepath.Join(vfVerifDir(), "corpus", "regress", s.Prop)
		files, _ := filepath.Glob(filepath.Join(dir, s.Name+"*.json"))
		sort.Strings(files)
		for _, f := range files {
			b, err := os.ReadFile(f)
			if err != nil {
				t.Fatalf("regress: %v", err)
			}
			var ff vfFailFile
			if err := ejson.Unmarshal(b, &ff); err != nil {
				t.Fatalf("regress %s: %v", f, err)
			}
			c, err := s.decode(ff.Case)
			if err != nil {
				t.Fatalf("regress %s: case does not decode: %v", f, err)
			}
			r := s.safeCheck(c)
			r.Labels = append(r.Labels, "regress-corpus")
			vfStats.record(r, func() any { return s.sample(c) })
			if r.Err != nil {
				canon, _ := ejson.Marshal(c)
				if _, ok := openKnown[string(canon)]; ok {
					continue
				}
				vfWriteFail(s.Prop, s.Name, c, r.Err)
				t.Fatalf("regression corpus case %s fails: %v", filepath.Base(f), r.Err)
			}
		}
	}

	// 4. generated cases
	if s.Gen == nil || s.Checks <= 0 {
		vfStats.Subchecks[s.Name] = "corpus-only"
		return
	}
	per := s.Checks / vfNShards()
	if per < 1 {
		per = 1
	}
	_ = flag.Set("rapid.checks", strconv.Itoa(per))
	_ = flag.Set("rapid.seed", strconv.FormatUint(vfSeed(s.Prop, s.Name), 10))
	_ = flag.Set("rapid.nofailfile", "true")
	if os.Getenv("VERIF_SHRINKTIME") != "" {
		_ = flag.Set("rapid.shrinktime", os.Getenv("VERIF_SHRINKTIME"))
	} else {
		_ = flag.Set("rapid.shrinktime", "20s")
	}
	var ran int64
	rapid.Check(t, func(rt *rapid.T) {
		c := s.Gen(rt)
		r := s.safeCheck(c)
		atomic.AddInt64(&ran, 1)
		vfStats.record(r, func() any { return s.sample(c) })
		if r.Err != nil {
			canon, _ := ejson.Marshal(c)
			if id, ok := openKnown[string(canon)]; ok {
				vfStats.exclude("known:" + id)
				return
			}
			vfWriteFail(s.Prop, s.Name, c, r.Err)
			rt.Fatalf("%s/%s: %v", s.Prop, s.Name, r.Err)
		}
	})
	vfStats.Subchecks[s.Name] = fmt.Sprintf("requested=%d ran=%d", per, ran)
	if !t.Failed() && ran < int64(per) {
		vfStats.note("sub-check %s: only %d of %d cases ran", s.Name, ran, per)
	}
}

// vfEnumFail is used by hand-written enumerations: record a failing case and fail the test.
func vfEnumFail(t *testing.T, prop, sub string, c any, err error) {
	t.Helper()
	vfWriteFail(prop, sub, c, err)
	vfStats.dump()
	t.Fatalf("%s/%s: %v", prop, sub, err)
}

func vfReplayMode() bool { return os.Getenv("VERIF_REPLAY") != "" }

// vfReplaySub reports whether a replay/other sub-check selection excludes this sub-check.
func vfOnlySub(name string) bool {
	if only := os.Getenv("VERIF_SUB"); only != "" && only != name {
		return false
	}
	if rp := os.Getenv("VERIF_REPLAY"); rp != "" {
		b, err := os.ReadFile(rp)
		if err != nil {
			return true
		}
		var ff vfFailFile
		if ejson.Unmarshal(b, &ff) == nil && ff.Sub != "" && ff.Sub != name {
			return false
		}
	}
	return true
}

// ---------------------------------------------------------------------------------
// helpers over the public API and the in-package tree

type vfNode struct {
	Mime string `json:"mime"`
	Ext  string `json:"ext"`
}

// vfChain lists (String, Extension) from the result up to the root; it gives up after 96
// steps so that a cyclic Parent() chain is reported rather than looping forever.
func vfChain(m *MIME) []vfNode {
	var out []vfNode
	for i := 0; m != nil && i < 96; i, m = i+1, m.Parent() {
		out = append(out, vfNode{m.String(), m.Extension()})
	}
	return out
}

func vfChainStr(m *MIME) string {
	var parts []string
	for _, n := range vfChain(m) {
		parts = append(parts, n.Mime+"("+n.Ext+")")
	}
	return strings.Join(parts, " <- ")
}

// vfBare strips parameters from a media type string without using the package under test.
func vfBare(s string) string {
	if i := strings.IndexByte(s, ';'); i >= 0 {
		s = s[:i]
	}
	return strings.TrimSpace(s)
}

// vfInFamily reports whether some element of the chain has the given bare media type.
func vfInFamily(m *MIME, bare string) bool {
	for _, n := range vfChain(m) {
		if vfBare(n.Mime) == bare {
			return true
		}
	}
	return false
}

// vfDetectAt runs Detect under the given limit and restores the default afterwards.
func vfDetectAt(in []byte, limit uint32) *MIME {
	SetLimit(limit)
	defer SetLimit(defaultLimit)
	return Detect(in)
}

// vfReaderAfter runs DetectReader(x) under `limit` immediately after another reader detection
// under `prev` (a limit history: per-call buffers or sizes that survive a call meet a new limit).
func vfReaderAfter(prev, limit uint32, x []byte) (*MIME, error) {
	defer SetLimit(defaultLimit)
	SetLimit(prev)
	_, _ = DetectReader(bytes.NewReader(x[:min(len(x), 48)]))
	SetLimit(limit)
	return DetectReader(bytes.NewReader(x))
}

// vfHeader is the part of the input that detection is allowed to examine.
func vfHeader(in []byte, limit uint32) []byte {
	if limit > 0 && uint64(len(in)) > uint64(limit) {
		return in[:limit]
	}
	return in
}

// vfExact copies b into a slice whose capacity equals its length, so that any reslice
// beyond len panics instead of silently reading bytes that were not handed over.
func vfExact(b []byte) []byte {
	out := make([]byte, len(b))
	copy(out, b)
	return out[:len(b):len(b)]
}

// vfRefWalk is the independent first-match descent over the live tree. It returns the
// matched path (root first) and the sequence of nodes whose detector was consulted.
func vfRefWalk(orig map[*MIME]func([]byte, uint32) bool, in []byte, limit uint32) (path, consulted []*MIME) {
	in = vfHeader(in, limit)
	cur := root
	path = append(path, cur)
	for {
		var next *MIME
		for _, c := range cur.children {
			consulted = append(consulted, c)
			det := c.detector
			if orig != nil {
				if d, ok := orig[c]; ok {
					det = d
				}
			}
			if det(in, limit) {
				next = c
				break
			}
		}
		if next == nil {
			return path, consulted
		}
		cur = next
		path = append(path, cur)
	}
}

// vfRegistered returns the set of bare media types registered in the live tree.
func vfRegistered() map[string]bool {
	out := map[string]bool{}
	for _, n := range root.flatten() {
		out[n.mime] = true
	}
	return out
}


// ---------------------------------------------------------------------------------
// route equivalence: whatever entry point, read schedule, limit history or caller buffer is
// used, the same header under the same limit gets the same answer. Used by the per-property
// checks after their own oracle, so that plumbing defects cannot hide behind one entry point.

type vfDataEOFReader struct {
	data   []byte
	off    int
	chunk  int
	onRead func() // called once, inside the first Read
}

func (r *vfDataEOFReader) Read(p []byte) (int, error) {
	if r.onRead != nil {
		f := r.onRead
		r.onRead = nil
		f()
	}
	if r.off >= len(r.data) {
		return 0, io.EOF
	}
	n := len(p)
	if r.chunk > 0 && n > r.chunk {
		n = r.chunk
	}
	n = copy(p[:n], r.data[r.off:])
	r.off += n
	if r.off == len(r.data) {
		return n, io.EOF // the last bytes arrive together with io.EOF
	}
	return n, nil
}

var (
	vfRouteShared []byte
	vfRoutePrev   []byte
)

// vfRoutes compares the alternative routes with want = Detect(x) under limit. It returns a
// description of the first disagreement.
func vfRoutes(x []byte, limit uint32, want *MIME) error {
	if limit > 1<<22 {
		return nil
	}
	defer SetLimit(defaultLimit)
	ws := vfChainStr(want)
	h := vfHash(x, vfHashU(uint64(limit)))
	// (a) reader after a detection under another limit; chunked; last data together with EOF
	prev := uint32(7)
	if h&1 == 1 {
		prev = uint32(len(x)) + limit + 300
		if prev > 1<<20 {
			prev = 1 << 20
		}
	}
	SetLimit(prev)
	_, _ = DetectReader(bytes.NewReader(x[:min(len(x), 40)]))
	SetLimit(limit)
	chunk := []int{0, 1, 3, 512, 3072, 5000}[(h>>1)%6]
	if len(x) > 2000 && chunk > 0 && chunk < 512 {
		chunk = 700 // byte-wise reading of long inputs costs a Read call per byte
	}
	m, err := DetectReader(&vfDataEOFReader{data: x, chunk: chunk})
	if err != nil || m == nil || vfChainStr(m) != ws {
		return fmt.Errorf("DetectReader (chunk %d, last data with EOF, after a reader detection under limit %d) gives (%s, %v), Detect gives %s", chunk, prev, vfChainStr(m), err, ws)
	}
	// (b) the limit is changed while the reader is being read: the answer must be the one for
	// the old or for the new limit, on the same bytes
	other := limit*2 + 11
	if (h>>4)&1 == 1 {
		other = 0
	} else if (h>>5)&1 == 1 && limit > 4 {
		other = limit / 2
	}
	SetLimit(limit)
	m2, err := DetectReader(&vfDataEOFReader{data: x, chunk: chunk, onRead: func() { SetLimit(other) }})
	SetLimit(other)
	alt := vfChainStr(Detect(x))
	if err != nil || m2 == nil || (vfChainStr(m2) != ws && vfChainStr(m2) != alt) {
		return fmt.Errorf("DetectReader while the limit changes from %d to %d gives (%s, %v); under %d the answer is %s, under %d it is %s", limit, other, vfChainStr(m2), err, limit, ws, other, alt)
	}
	// (c) the caller re-uses one buffer: the previous input of this process, then x, same length
	SetLimit(limit)
	if cap(vfRouteShared) < len(x) {
		vfRouteShared = make([]byte, len(x)*2+64)
	}
	sh := vfRouteShared[:len(x)]
	if len(vfRoutePrev) > 0 && len(x) > 0 {
		for i := range sh {
			sh[i] = vfRoutePrev[i%len(vfRoutePrev)]
		}
		Detect(sh)
	}
	copy(sh, x)
	if m3 := Detect(sh); vfChainStr(m3) != ws {
		return fmt.Errorf("Detect on a re-used caller buffer (which held other content of the same length just before) gives %s, on a fresh slice %s", vfChainStr(m3), ws)
	}
	vfRoutePrev = append(vfRoutePrev[:0], x[:min(len(x), 4096)]...)
	// (d) a reader that delivers x in two segments (boundary = vfRouteCut if set, else the middle)
	// with short, non-final reads, under limits far above the input size (64 KiB growth thresholds)
	cut := len(x) / 2
	if vfRouteCut > 0 && vfRouteCut < len(x) {
		cut = vfRouteCut
	}
	for _, big := range []uint32{70001, 1 << 20} {
		if big <= limit || len(x) == 0 {
			continue
		}
		// allocation of `big` bytes per call: sample (every call when a check named the boundary)
		if vfRouteCut == 0 && ((big == 70001 && (h>>8)%8 != 0) || (big == 1<<20 && (h>>8)%64 != 0)) {
			continue
		}
		if vfRouteCut != 0 && big == 1<<20 && (h>>8)%8 != 0 {
			continue
		}
		SetLimit(big)
		wantBig := vfChainStr(Detect(x))
		m4, err := DetectReader(&vfSegReader{segs: [][]byte{x[:cut], x[cut:]}})
		if err != nil || m4 == nil || vfChainStr(m4) != wantBig {
			return fmt.Errorf("DetectReader over a reader that returns the input in two short reads (boundary %d) under limit %d gives (%s, %v), Detect gives %s", cut, big, vfChainStr(m4), err, wantBig)
		}
	}
	// (e) readers of the standard library (they implement more than io.Reader: Peek, Len, Seek,
	// WriteTo, ReadAt, ...); same bytes, same limit, and no more than `limit` bytes consumed
	SetLimit(limit)
	var (
		sr       io.Reader
		kind     string
		consumed func() int
	)
	switch (h >> 16) % 10 {
	case 9: // a seekable reader the caller has already read from: detection concerns what is left
		junk := []byte("\x00\x01envelope read by the caller before\xff\n")
		br := bytes.NewReader(append(append([]byte(nil), junk...), x...))
		_, _ = io.CopyN(io.Discard, br, int64(len(junk)))
		sr, kind, consumed = br, "*bytes.Reader positioned behind bytes the caller consumed", func() int { return len(x) - br.Len() }
	case 8:
		d := &vfDecoyReader{data: x, head: len(x) / 3}
		sr, kind, consumed = d, "reader that also has Len/Size/Buffered methods describing only its buffered head", func() int { return d.off }
	case 0:
		br := bytes.NewReader(x)
		sr, kind, consumed = bufio.NewReaderSize(br, 16), "*bufio.Reader (16-byte buffer)", nil
	case 1:
		br := bytes.NewReader(x)
		sr, kind, consumed = bufio.NewReader(br), "*bufio.Reader (4096-byte buffer)", nil
	case 2:
		bb := bytes.NewBuffer(append([]byte(nil), x...))
		sr, kind, consumed = bb, "*bytes.Buffer", func() int { return len(x) - bb.Len() }
	case 3:
		st := strings.NewReader(string(x))
		sr, kind, consumed = st, "*strings.Reader", func() int { return len(x) - st.Len() }
	case 4:
		sec := io.NewSectionReader(bytes.NewReader(append(append([]byte("junk"), x...), "trailing junk"...)), 4, int64(len(x)))
		sr, kind = sec, "*io.SectionReader"
		consumed = func() int { p, _ := sec.Seek(0, io.SeekCurrent); return int(p) }
	case 5:
		lr := &io.LimitedReader{R: bytes.NewReader(append(append([]byte(nil), x...), "trailing junk"...)), N: int64(len(x))}
		sr, kind, consumed = lr, "*io.LimitedReader", func() int { return len(x) - int(lr.N) }
	case 6:
		sr, kind = io.MultiReader(bytes.NewReader(x[:len(x)/3]), strings.NewReader(""), bytes.NewReader(x[len(x)/3:])), "io.MultiReader"
	default:
		br := bytes.NewReader(x)
		sr, kind, consumed = br, "*bytes.Reader", func() int { return len(x) - br.Len() }
	}
	m5, err := DetectReader(sr)
	if err != nil || m5 == nil || vfChainStr(m5) != ws {
		return fmt.Errorf("DetectReader over a %s under limit %d gives (%s, %v), Detect gives %s", kind, limit, vfChainStr(m5), err, ws)
	}
	if consumed != nil {
		n := consumed()
		if limit > 0 && n > int(limit) {
			return fmt.Errorf("DetectReader over a %s under limit %d consumed %d bytes", kind, limit, n)
		}
		if limit == 0 && n != len(x) {
			return fmt.Errorf("DetectReader over a %s without limit consumed %d of %d bytes", kind, n, len(x))
		}
	}
	return nil
}

// vfDecoyReader delivers data through Read; its other methods (as on a buffered or replaying
// stream) describe only the part it holds in memory, not the stream.
type vfDecoyReader struct {
	data []byte
	off  int
	head int
}

func (r *vfDecoyReader) Read(p []byte) (int, error) {
	if r.off >= len(r.data) {
		return 0, io.EOF
	}
	n := copy(p, r.data[r.off:min(len(r.data), r.off+max(1, r.head))])
	r.off += n
	return n, nil
}
func (r *vfDecoyReader) Len() int      { return max(0, r.head-r.off) }
func (r *vfDecoyReader) Size() int64   { return int64(r.head) }
func (r *vfDecoyReader) Buffered() int { return max(0, r.head-r.off) }

// vfRouteCut lets a check name the segment boundary for route (d) (e.g. the end of a complete value).
var vfRouteCut int

type vfSegReader struct {
	segs [][]byte
}

func (r *vfSegReader) Read(p []byte) (int, error) {
	for len(r.segs) > 0 && len(r.segs[0]) == 0 {
		r.segs = r.segs[1:]
	}
	if len(r.segs) == 0 {
		return 0, io.EOF
	}
	n := copy(p, r.segs[0])
	r.segs[0] = r.segs[0][n:]
	return n, nil
}

// ---------------------------------------------------------------------------------
// seed corpus and mutators

type vfSeedT struct {
	Name string
	Data []byte
	Mime string
}

var (
	vfSeedsOnce sync.Once
	vfSeedList  []vfSeedT
)

func vfSeeds() []vfSeedT {
	vfSeedsOnce.Do(func() {
		b, err := os.ReadFile(filepath.Join(vfVerifDir(), "corpus", "seeds", "seeds.json"))
		if err != nil {
			panic(err)
		}
		var recs []struct{ Name, Hex, Mime string }
		if err := ejson.Unmarshal(b, &recs); err != nil {
			panic(err)
		}
		for _, r := range recs {
			d, err := hex.DecodeString(r.Hex)
			if err != nil {
				panic(err)
			}
			vfSeedList = append(vfSeedList, vfSeedT{r.Name, d, r.Mime})
		}
	})
	return vfSeedList
}

var vfHostile = []uint32{0, 1, 2, 0x7f, 0x80, 0xff, 0x100, 0x7fff, 0x8000, 0xffff, 0x10000,
	0x7fffffff, 0x80000000, 0xffffffff, 0xfffffffe, 0xffffffcf, 0xffffffce, 0xffffffe2, 0xffffffe1}

func vfGenSeed(t *rapid.T) []byte {
	s := vfSeeds()
	return append([]byte(nil), s[rapid.IntRange(0, len(s)-1).Draw(t, "seed")].Data...)
}

// vfMutate applies 0..n structured mutations to b.
func vfMutate(t *rapid.T, b []byte, maxOps int) []byte {
	b = append([]byte(nil), b...)
	ops := rapid.IntRange(0, maxOps).Draw(t, "nmut")
	for i := 0; i < ops; i++ {
		switch rapid.IntRange(0, 8).Draw(t, "mut") {
		case 8: // a literal of the code under test written over / inserted at an offset
			tok := vfDictTok(t)
			if rapid.IntRange(0, 3).Draw(t, "atlinestart") == 0 {
				tok = rapid.SampledFrom([]string{"\n", "\r\n", "\x00", " "}).Draw(t, "lead") + tok
			}
			p := rapid.IntRange(0, len(b)).Draw(t, "pos")
			if rapid.Bool().Draw(t, "hot") {
				p = min(len(b), rapid.SampledFrom([]int{0, 4, 8, 28, 30, 36, 257, 512, 1024}).Draw(t, "hotpos"))
			}
			if rapid.Bool().Draw(t, "overwrite") {
				if len(b) < p+len(tok) {
					b = append(b, make([]byte, p+len(tok)-len(b))...)
				}
				copy(b[p:], tok)
			} else {
				b = append(b[:p], append([]byte(tok), b[p:]...)...)
			}
		case 0: // replace a byte
			if len(b) > 0 {
				b[rapid.IntRange(0, len(b)-1).Draw(t, "pos")] = rapid.Byte().Draw(t, "val")
			}
		case 1: // insert a byte
			p := rapid.IntRange(0, len(b)).Draw(t, "pos")
			v := rapid.Byte().Draw(t, "val")
			b = append(b[:p], append([]byte{v}, b[p:]...)...)
		case 2: // delete a range
			if len(b) > 0 {
				p := rapid.IntRange(0, len(b)-1).Draw(t, "pos")
				n := rapid.IntRange(1, min(8, len(b)-p)).Draw(t, "n")
				b = append(b[:p], b[p+n:]...)
			}
		case 3: // truncate
			b = b[:rapid.IntRange(0, len(b)).Draw(t, "cut")]
		case 4: // hostile 32-bit integer at an offset (LE or BE)
			if len(b) >= 4 {
				p := rapid.IntRange(0, len(b)-4).Draw(t, "pos")
				if rapid.Bool().Draw(t, "hot") {
					p = min(len(b)-4, rapid.SampledFrom([]int{18, 8, 12, 16, 22, 26, 36, 44, 48, 4, 0}).Draw(t, "hotpos"))
				}
				v := rapid.SampledFrom(vfHostile).Draw(t, "hostile")
				switch rapid.IntRange(0, 4).Draw(t, "adj") {
				case 0, 1:
					v = uint32(len(b)) + uint32(rapid.IntRange(-60, 60).Draw(t, "d"))
				case 2: // small negative numbers: header-size + v wraps to (almost) nothing
					v = -uint32(rapid.IntRange(1, 64).Draw(t, "neg"))
				}
				if rapid.Bool().Draw(t, "le") {
					binary.LittleEndian.PutUint32(b[p:], v)
				} else {
					binary.BigEndian.PutUint32(b[p:], v)
				}
			}
		case 5: // splice with another seed
			o := vfGenSeed(t)
			p := rapid.IntRange(0, len(b)).Draw(t, "pos")
			q := rapid.IntRange(0, len(o)).Draw(t, "opos")
			b = append(append([]byte(nil), b[:p]...), o[q:]...)
		case 6: // append random tail
			b = append(b, rapid.SliceOfN(rapid.Byte(), 0, 40).Draw(t, "tail")...)
		case 7: // pad to a boundary length
			n := rapid.SampledFrom([]int{12, 24, 36, 68, 112, 132, 512, 520, 1153, 2048, 3072, 4097}).Draw(t, "padto")
			if len(b) < n {
				b = append(b, make([]byte, n-len(b))...)
			}
		}
		if len(b) > 1<<16 {
			b = b[:1<<16]
		}
	}
	return b
}

// vfGenLimit draws a read limit biased to the boundaries around len(b).
func vfGenLimit(t *rapid.T, n int) uint32 {
	switch rapid.IntRange(0, 9).Draw(t, "limkind") {
	case 0:
		return 0
	case 1:
		return uint32(n)
	case 2:
		return uint32(n + 1)
	case 3:
		if n > 0 {
			return uint32(n - 1)
		}
		return 1
	case 4:
		return 3072
	case 5:
		return rapid.SampledFrom([]uint32{1, 2, 0x7fffffff, 0x80000000, 0xffffffff}).Draw(t, "limbig")
	default:
		return uint32(rapid.IntRange(0, n+2).Draw(t, "lim"))
	}
}

// vfGenAnyInput draws an input from the broad distribution used by several checks.
// vfEncodeWide re-encodes text as UTF-16 or UTF-32 (LE/BE) behind the matching byte-order mark.
func vfEncodeWide(s string, width int, be bool) []byte {
	var out []byte
	put := func(v uint32) {
		for i := 0; i < width; i++ {
			sh := uint(8 * i)
			if be {
				sh = uint(8 * (width - 1 - i))
			}
			out = append(out, byte(v>>sh))
		}
	}
	put(0xFEFF)
	for _, r := range s {
		if width == 2 && r >= 0x10000 {
			r -= 0x10000
			put(0xD800 + uint32(r>>10))
			put(0xDC00 + uint32(r&0x3ff))
			continue
		}
		put(uint32(r))
	}
	return out
}

var vfWideDocs = []string{"{\"type\":\"Feature\",\"a\":[1,2]}", "{\"a\":1}\n{\"b\":2}\n", "a,b,c\n1,2,3\n4,5,6\n", "#!/usr/bin/env python\nprint(1)\n", "BEGIN:VCARD\nVERSION:3.0\nEND:VCARD\n",
	"<?xml version=\"1.0\"?><rss version=\"2.0\"></rss>", "<html><head><title>t</title></head></html>", "<svg xmlns=\"http://www.w3.org/2000/svg\"/>", "plain words, caf\u00e9\n", "WEBVTT\n\n00:01.000 --> 00:02.000\nhi\n", "<?php echo 1;"}

func vfGenAnyInput(t *rapid.T) []byte {
	switch rapid.IntRange(0, 6).Draw(t, "inkind") {
	case 6: // text re-encoded as UTF-16 / UTF-32 behind its byte-order mark
		doc := rapid.SampledFrom(vfWideDocs).Draw(t, "widedoc")
		if rapid.Bool().Draw(t, "widetextish") {
			doc = vfGenTextish(t)
		}
		w := vfEncodeWide(doc, rapid.SampledFrom([]int{2, 2, 2, 4}).Draw(t, "width"), rapid.Bool().Draw(t, "be"))
		if rapid.IntRange(0, 3).Draw(t, "nobom") == 0 {
			// the same text without its byte-order mark: every other byte is NUL, nothing announces it
			if len(w) >= 4 && (w[2] == 0 && w[3] == 0 || w[0] == 0 && w[1] == 0) {
				return w[4:]
			}
			return w[2:]
		}
		return w
	case 0:
		return rapid.SliceOfN(rapid.Byte(), 0, 64).Draw(t, "rand")
	case 1:
		return vfGenSeed(t)
	case 2, 3:
		return vfMutate(t, vfGenSeed(t), 4)
	case 4:
		return vfMutate(t, []byte(vfGenTextish(t)), 2)
	default:
		return []byte(vfGenTextish(t))
	}
}

var vfTextPieces = []string{
	"{", "}", "[", "]", "\"", ":", ",", " ", "\n", "\r\n", "\t", "a", "1", "0.5", "-1e3", "true", "null",
	"\"type\":\"Feature\"", "\"log\":{\"version\":1}", "\"asset\":{\"version\":\"2.0\"}", "\\", "\\u00e9", "\\n",
	"<", ">", "<html>", "<!DOCTYPE html>", "<meta charset=", "<?xml version=\"1.0\"", " encoding=\"", "?>", "<svg",
	"#!/usr/bin/env python\n", "#!/usr/bin/perl\n", "#!", "#!              ", "#! \t \t \t \t \t \t \t \t \n", "#!\n", "#! /usr/bin/env   \n", "#!/usr/bin/env\tphp -d x\n", "<?php", "BEGIN:VCARD\n", "BEGIN:VCALENDAR\r\n", "WEBVTT\n", "WEBVTT",
	"1\n00:02:16,612 --> 00:02:19,376\nhi\n", "{\\rtf1", "a,b,c\n", "1\t2\t3\n", "#comment\n", "\"q,\"\"q\"", "WARC/1.0",
	"\xef\xbb\xbf", "\xff\xfe", "\xfe\xff", "\xc3\xa9", "\xe2\x82\xac", "\x85", "\xa0", "\xff", "\x1b", "\x0c", "\x7f",
	"PK\x03\x04", "%PDF-", "\x00", "\x01", "MZ", "BM", "GIF89a", "é", "日本",
	// escape sequences of 7-bit encodings and terminals: ASCII text all the same
	"\x1b$B", "\x1b(B", "\x1b$@", "\x1b(J", "\x1b$)C", "\x1b[0m", "\x1b[1;31m", "~{", "~}", "\x0e", "\x0f", "+AGE-", "+/v8-",
}

func vfGenTextish(t *rapid.T) string {
	n := rapid.IntRange(0, 14).Draw(t, "npieces")
	var sb strings.Builder
	for i := 0; i < n; i++ {
		if rapid.IntRange(0, 9).Draw(t, "fromdict") == 0 {
			sb.WriteString(vfDictTok(t))
			continue
		}
		sb.WriteString(rapid.SampledFrom(vfTextPieces).Draw(t, "piece"))
	}
	return sb.String()
}

// vfDictTok draws one literal of the tree under test (vfDictLits is generated by the driver
// from the string and byte-slice literals of the staged sources: the fuzzing dictionary).
func vfDictTok(t *rapid.T) string {
	if len(vfDictLits) == 0 {
		return "x"
	}
	return vfDictLits[rapid.IntRange(0, len(vfDictLits)-1).Draw(t, "dict")]
}

// vfDictSweep runs `check` on every case `build` derives from every dictionary literal (the
// shards split the literals). A failure is written as a replay file of sub-check failSub.
func vfDictSweep[C any](t *testing.T, prop, failSub string, toks []string, build func(tok string) []C, check func(C) vfResult, desc string) bool {
	if !vfOnlySub("dict") || vfReplayMode() {
		return true
	}
	sh, nsh := vfShard(), vfNShards()
	n := 0
	for i, tok := range toks {
		if i%nsh != sh {
			continue
		}
		for _, c := range build(tok) {
			r := func() (r vfResult) {
				defer func() {
					if p := recover(); p != nil {
						r = vfResult{Err: fmt.Errorf("panic: %v", p)}
					}
				}()
				return check(c)
			}()
			n++
			r.Labels = append(r.Labels, "dict")
			vfStats.record(r, func() any { return map[string]any{"sub": "dict", "literal": vfQ([]byte(tok))} })
			if r.Err != nil {
				vfEnumFail(t, prop, failSub, c, r.Err)
				return false
			}
		}
	}
	vfStats.Subchecks["dict"] = fmt.Sprintf("%s; %d literals of the tree under test, this shard ran %d cases", desc, len(toks), n)
	return true
}

// vfSelfSum writes, into bytes 148..155 of a text document of at least 512 bytes, the octal
// digits of the tar header checksum of its own first block (sum of the 512 bytes with those
// eight counted as spaces) followed by `tail`: the one computed value a signature check in the
// tree depends on. digits+len(tail) must be 8. Returns nil when the sum does not fit.
func vfSelfSum(doc []byte, digits int, tail string) []byte {
	if len(doc) < 512 || digits+len(tail) != 8 {
		return nil
	}
	out := append([]byte(nil), doc...)
	s := 0
	for i := 0; i < 512; i++ {
		if i >= 148 && i < 156 {
			s += ' '
		} else {
			s += int(out[i])
		}
	}
	f := fmt.Sprintf("%0*o", digits, s)
	if len(f) != digits || f[0] == '0' {
		return nil
	}
	copy(out[148:], f+tail)
	return out
}

// vfDictText are the dictionary entries that are plain printable ASCII without quotes,
// backslashes, commas or line breaks (safe inside JSON strings, CSV fields, names).
var (
	vfDictTextOnce sync.Once
	vfDictTextList []string
)

func vfDictText() []string {
	vfDictTextOnce.Do(func() {
		for _, s := range vfDictLits {
			ok := true
			for i := 0; i < len(s); i++ {
				if c := s[i]; c < 0x20 || c > 0x7e || c == '"' || c == '\\' || c == ',' {
					ok = false
				}
			}
			if ok {
				vfDictTextList = append(vfDictTextList, s)
			}
		}
		if len(vfDictTextList) == 0 {
			vfDictTextList = []string{"x"}
		}
	})
	return vfDictTextList
}

// vfBig builds inputs of 70 KB - 2.5 MB whose interesting part is far from the start: scale that
// the generated cases do not reach. kind selects the family.
func vfBig(kind string, n int) []byte {
	var b []byte
	grow := func(unit string) {
		for len(b) < n {
			b = append(b, unit...)
		}
	}
	switch kind {
	case "html-giant-comment":
		b = append(b, "<!DOCTYPE html><html><head><!-- "...)
		grow("comment filler ")
		b = append(b, " --><meta charset=\"koi8-r\"><title>t</title></head><body>x</body></html>"...)
	case "html-giant-script":
		b = append(b, "<html><head><script>var s = '"...)
		grow("abcdefghij")
		b = append(b, "';</script><meta charset=\"koi8-r\"></head>"...)
	case "json-array":
		b = append(b, "["...)
		grow("{\"k\":[1,2,3],\"s\":\"text\"},\n")
		b = append(b, "{\"last\":true}]"...)
	case "geojson-decider-last":
		b = append(b, "{\"features\":["...)
		grow("{\"id\":1,\"p\":[1.5,2.5]},")
		b = append(b, "{}],\"type\":\"FeatureCollection\"}"...)
	case "har-decider-last":
		b = append(b, "{\"pad\":["...)
		grow("\"0123456789\",")
		b = append(b, "1],\"log\":{\"version\":\"1.2\"}}"...)
	case "gltf-decider-last":
		b = append(b, "{\"buffers\":["...)
		grow("{\"byteLength\":1024},")
		b = append(b, "{}],\"asset\":{\"version\":\"2.0\"}}"...)
	case "csv":
		b = append(b, "id,name,value\n"...)
		grow("12,foo bar,3.5\n")
	case "csv-ragged-late":
		b = append(b, "id,name,value\n"...)
		grow("12,foo bar,3.5\n")
		b = append(b, "13,only two\n14,x,1\n"...)
	case "ndjson-long-line":
		b = append(b, "{\"id\":1}\n{\"blob\":\""...)
		grow("x")
		b = append(b, "\"}\n{\"id\":3}\n"...)
	case "ndjson-long-line-then-damage":
		b = append(b, "{\"id\":1}\n{\"blob\":\""...)
		grow("x")
		b = append(b, "\"}\n{\"id\":\n{\"id\":4}\n"...)
	case "text-latin-tail":
		grow("plain ascii words ")
		b = append(b, " caf\xe9 \x93quoted\x94\n"...)
	case "text-utf8-then-bad":
		grow("caf\u00e9 words ")
		b = append(b, " \xff bad\n"...)
	default:
		grow("filler ")
	}
	return b
}

// vfGenLong draws a long (3100-9000 byte) text-like input and a limit above the default that
// falls inside it; `at` is the limit as an offset, so that callers can plant bytes around it.
func vfGenLong(t *rapid.T) (x []byte, limit uint32) {
	unit := rapid.SampledFrom([]string{"lorem ipsum dolor sit amet, ", "a,b,c\n", "{\"k\":1}\n", "x", "word ", "1\t2\n", "<p>para</p>\n"}).Draw(t, "unit")
	n := rapid.IntRange(3100, 9000).Draw(t, "longlen")
	head := rapid.SampledFrom([]string{"", "", "{\"a\":[", "[\"", "<html><body>", "<?xml version=\"1.0\"?><r>", "id,name,v\n", "#!/usr/bin/env python\n"}).Draw(t, "longhead")
	x = []byte(head)
	for len(x) < n {
		x = append(x, unit...)
	}
	x = x[:n]
	L := rapid.IntRange(3073, n+3).Draw(t, "longlimit")
	if rapid.Bool().Draw(t, "p2") {
		L = rapid.SampledFrom([]int{3073, 4096, 6144, 8192, n - 1, n, n + 1}).Draw(t, "longlimit2")
	}
	return x, uint32(L)
}

// vfTarWindow writes an octal-looking field (what a tar checksum field holds) at offset 148..155
// of a long text: a signature check that normalises that field IN PLACE would change what the
// later checks see.
func vfTarWindow(t *rapid.T, x []byte) []byte {
	for len(x) < 520 {
		x = append(x, x...)
		if len(x) == 0 {
			x = append(x, "filler text "...)
		}
	}
	f := rapid.SampledFrom([]string{"0001750\x00", "01234567", "0000000\x00", "   1234 ", "7777777\x00", "12345670", "0001750 "}).Draw(t, "tarfield")
	copy(x[148:156], f)
	return x
}

// vfIsBinByte is the WHATWG binary data byte predicate, written from the specification
// table (https://mimesniff.spec.whatwg.org/#binary-data-byte), not from magic.Text.
func vfIsBinByte(b byte) bool {
	switch {
	case b <= 0x08:
		return true
	case b == 0x0B:
		return true
	case b >= 0x0E && b <= 0x1A:
		return true
	case b >= 0x1C && b <= 0x1F:
		return true
	}
	return false
}

var vfBOMs = []struct {
	bom  []byte
	name string
}{
	{[]byte{0xEF, 0xBB, 0xBF}, "utf-8"},
	{[]byte{0x00, 0x00, 0xFE, 0xFF}, "utf-32be"},
	{[]byte{0xFF, 0xFE, 0x00, 0x00}, "utf-32le"},
	{[]byte{0xFE, 0xFF}, "utf-16be"},
	{[]byte{0xFF, 0xFE}, "utf-16le"},
}

// vfBOM returns the charset of the longest byte-order mark h starts with ("" if none).
func vfBOM(h []byte) string {
	best, name := 0, ""
	for _, b := range vfBOMs {
		if bytes.HasPrefix(h, b.bom) && len(b.bom) > best {
			best, name = len(b.bom), b.name
		}
	}
	return name
}

func vfHasBin(h []byte) bool {
	for _, b := range h {
		if vfIsBinByte(b) {
			return true
		}
	}
	return false
}
