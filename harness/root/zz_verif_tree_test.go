//go:build verif

package mimetype

import (
	"bytes"
	"errors"
	"fmt"
	"os"
	"path/filepath"
	"strings"
	"sync"
	"syscall"
	"testing"
	"time"

	"pgregory.net/rapid"
)

// ---------------------------------------------------------------------------------
// tree snapshot / restore (in-package; used between cases so that Extend histories of one
// case cannot leak into the next)

type vfTreeSnap struct {
	nodes    []*MIME
	children [][]*MIME
	detector []func([]byte, uint32) bool
}

var vfSnap *vfTreeSnap

func vfTreeSnapshot() {
	if vfSnap != nil {
		return
	}
	s := &vfTreeSnap{}
	for _, n := range root.flatten() {
		s.nodes = append(s.nodes, n)
		s.children = append(s.children, append([]*MIME(nil), n.children...))
		s.detector = append(s.detector, n.detector)
	}
	vfSnap = s
}

func vfTreeRestore() {
	if vfSnap == nil {
		vfTreeSnapshot()
		return
	}
	mu.Lock()
	for i, n := range vfSnap.nodes {
		n.children = append([]*MIME(nil), vfSnap.children[i]...)
		n.detector = vfSnap.detector[i]
	}
	mu.Unlock()
}

// vfTreeWellFormed: the registered formats form a tree - every node is listed under exactly one
// parent, its parent pointer is that parent, and the chain of parents ends at the root.
func vfTreeWellFormed() error {
	seen := map[*MIME]*MIME{}
	var walk func(p *MIME) error
	walk = func(p *MIME) error {
		for _, c := range p.children {
			if prev, dup := seen[c]; dup {
				return fmt.Errorf("format %s%s is listed under two parents: %s and %s", c.mime, c.extension, prev.mime, p.mime)
			}
			seen[c] = p
			if c.parent != p {
				pn := "<nil>"
				if c.parent != nil {
					pn = c.parent.mime
				}
				return fmt.Errorf("format %s%s is listed under %s but its parent pointer says %s", c.mime, c.extension, p.mime, pn)
			}
			if err := walk(c); err != nil {
				return err
			}
		}
		return nil
	}
	if root.parent != nil {
		return fmt.Errorf("the root has a parent")
	}
	return walk(root)
}

// vfConcurrentExtend registers n extensions on the same parent from n goroutines released together
// and reports the ones that are not in force afterwards (by Lookup of name and alias, and by
// detection of an input only that extension accepts).
func vfConcurrentExtend(parent string, n int) error {
	vfTreeSnapshot()
	vfTreeRestore()
	defer vfTreeRestore()
	var wg sync.WaitGroup
	start := make(chan struct{})
	for k := 0; k < n; k++ {
		wg.Add(1)
		go func(k int) {
			defer wg.Done()
			magic := []byte(fmt.Sprintf("VFC%04d:", k))
			det := func(raw []byte, _ uint32) bool { return bytes.HasPrefix(raw, magic) }
			<-start
			if parent == "" {
				vfExtendRoot(det, fmt.Sprintf("application/x-verif-c%d", k), fmt.Sprintf(".c%d", k), fmt.Sprintf("application/x-verif-c%d-alias", k))
			} else if p := Lookup(parent); p != nil {
				p.Extend(det, fmt.Sprintf("application/x-verif-c%d", k), fmt.Sprintf(".c%d", k), fmt.Sprintf("application/x-verif-c%d-alias", k))
			}
		}(k)
	}
	close(start)
	wg.Wait()
	for k := 0; k < n; k++ {
		name := fmt.Sprintf("application/x-verif-c%d", k)
		for _, nm := range []string{name, name + "-alias"} {
			if l := Lookup(nm); l == nil || l.String() != name {
				return fmt.Errorf("%d goroutines each registered one format under %q; all Extend calls returned, but Lookup(%q) = %v", n, parent, nm, l)
			}
		}
		if parent != "" && parent != "text/plain" {
			continue // the magic input only reaches the root and text/plain; elsewhere Lookup is the check
		}
		in := []byte(fmt.Sprintf("VFC%04d: plain words", k))
		if m := Detect(in); vfBare(m.String()) != name {
			return fmt.Errorf("%d goroutines each registered one format under %q; the input for format %d is classified as %s", n, parent, k, vfChainStr(m))
		}
	}
	return nil
}

// vfStaticCase / vfStaticSub: parameterless structural checks packaged as a replayable sub-check.
type vfStaticCase struct {
	Check  string `json:"check"`
	Parent string `json:"parent,omitempty"`
	N      int    `json:"n,omitempty"`
}

func vfStaticCheck(c vfStaticCase) vfResult {
	var r vfResult
	r.Nontrivial = true
	r.Hash = vfHash([]byte(fmt.Sprint(c)))
	switch c.Check {
	case "tree-well-formed":
		r.Err = vfTreeWellFormed()
	case "concurrent-extend":
		r.Err = vfConcurrentExtend(c.Parent, c.N)
		r.Labels = append(r.Labels, "concurrent-extend")
	}
	return r
}

// vfRunStatic runs the tree check once and a number of concurrent-registration cases.
func vfRunStatic(t *testing.T, prop string, concCases int) {
	vfRun(t, vfSub[vfStaticCase]{Prop: prop, Name: "static", Check: vfStaticCheck})
	if vfReplayMode() || t.Failed() {
		return
	}
	cases := []vfStaticCase{{Check: "tree-well-formed"}}
	parents := []string{"", "text/plain", "application/zip", "application/json"}
	for i := 0; i < concCases; i++ {
		if i%vfNShards() != vfShard() {
			continue
		}
		cases = append(cases, vfStaticCase{Check: "concurrent-extend", Parent: parents[i%len(parents)], N: []int{2, 3, 8, 16, 48, 128}[i%6]})
	}
	for _, c := range cases {
		r := vfStaticCheck(c)
		vfStats.record(r, func() any { return map[string]any{"sub": "static", "case": c} })
		if r.Err != nil {
			vfEnumFail(t, prop, "static", c, r.Err)
			return
		}
	}
}

// vfProcfs: files whose size as reported by stat differs from what reading them yields (procfs).
// DetectFile must classify them by their bytes like every other entry point.
func vfProcfs(check func(path string, content []byte, viaFile *MIME, err error) error) (int, error) {
	n := 0
	defer SetLimit(defaultLimit)
	for _, limit := range []uint32{defaultLimit, 0, 100, 1 << 20} {
		SetLimit(limit)
		for _, p := range []string{"/proc/self/cmdline", "/proc/version", "/proc/self/environ", "/proc/filesystems"} {
			b, err := os.ReadFile(p)
			if err != nil || len(b) == 0 {
				continue
			}
			m, derr := DetectFile(p)
			b2, _ := os.ReadFile(p)
			if !bytes.Equal(b, b2) {
				continue // content not stable
			}
			n++
			if e := check(fmt.Sprintf("%s [limit %d]", p, limit), b, m, derr); e != nil {
				return n, e
			}
		}
		// named pipes: no size, no seeking; the bytes arrive while DetectFile reads
		for i, content := range vfFifoContents() {
			p := filepath.Join(vfScratchDir(), fmt.Sprintf("verif-fifo-%d-%d", os.Getpid(), i))
			os.Remove(p)
			if err := syscall.Mkfifo(p, 0o600); err != nil {
				continue
			}
			done := make(chan struct{})
			go func() {
				defer close(done)
				w, err := os.OpenFile(p, os.O_WRONLY, 0)
				if err != nil {
					return
				}
				w.Write(content) // EPIPE once the reader has what it wants and closes: fine
				w.Close()
			}()
			m, derr := DetectFile(p)
			// release the writer if DetectFile never opened the pipe, or stopped reading
			if rd, err := os.OpenFile(p, os.O_RDONLY|syscall.O_NONBLOCK, 0); err == nil {
				select {
				case <-done:
				case <-time.After(20 * time.Second):
				}
				rd.Close()
			}
			<-done
			os.Remove(p)
			n++
			if e := check(fmt.Sprintf("named pipe delivering %d bytes [limit %d]", len(content), limit), content, m, derr); e != nil {
				return n, e
			}
		}
	}
	return n, nil
}

func vfFifoContents() [][]byte {
	out := [][]byte{
		[]byte("{\"type\":\"FeatureCollection\",\"features\":[]}"),
		[]byte("plain text through a pipe\n"),
		vfBig("json-array", 9000),
		vfBig("csv", 5000),
	}
	for _, s := range vfSeeds() {
		if (s.Mime == "image/png" || s.Mime == "application/pdf" || s.Mime == "application/zip") && len(s.Data) < 60000 {
			out = append(out, s.Data)
		}
	}
	return out
}

// ---------------------------------------------------------------------------------
// serialisable detector predicates for extensions

type vfPred struct {
	Kind string `json:"kind"` // prefix | contains | lenmod | always | never | limitlt | minlen
	Arg  vfB    `json:"arg,omitempty"`
	N    int    `json:"n,omitempty"`
}

func (p vfPred) fn() func([]byte, uint32) bool {
	switch p.Kind {
	case "prefix":
		a := []byte(p.Arg)
		return func(raw []byte, _ uint32) bool { return bytes.HasPrefix(raw, a) }
	case "contains":
		a := []byte(p.Arg)
		return func(raw []byte, _ uint32) bool { return bytes.Contains(raw, a) }
	case "lenmod":
		n := p.N
		if n < 1 {
			n = 1
		}
		return func(raw []byte, _ uint32) bool { return len(raw)%n == 0 }
	case "minlen":
		n := p.N
		return func(raw []byte, _ uint32) bool { return len(raw) >= n }
	case "limitlt":
		n := uint32(p.N)
		return func(_ []byte, limit uint32) bool { return limit != 0 && limit < n }
	case "limitzero": // a format that can only be told from the whole file
		return func(_ []byte, limit uint32) bool { return limit == 0 }
	case "limitnonzero":
		return func(raw []byte, limit uint32) bool { return limit != 0 && uint32(len(raw)) <= limit }
	case "always":
		return func([]byte, uint32) bool { return true }
	}
	return func([]byte, uint32) bool { return false }
}

func vfGenPred(t *rapid.T) vfPred {
	switch rapid.IntRange(0, 9).Draw(t, "pk") {
	case 0, 1, 2:
		return vfPred{Kind: "prefix", Arg: vfB(rapid.SampledFrom([]string{"VF1:", "VF2:", "VF", "PK", "{", "<", "\x89PNG", "#!", "a", "", "\xd0\xcf"}).Draw(t, "pfx"))}
	case 3, 4:
		return vfPred{Kind: "contains", Arg: vfB(rapid.SampledFrom([]string{"a", "e", "\x00", "\n", ",", "VF", "xml", "\"", "1"}).Draw(t, "cnt"))}
	case 5:
		return vfPred{Kind: "lenmod", N: rapid.IntRange(1, 3).Draw(t, "mod")}
	case 6:
		return vfPred{Kind: "minlen", N: rapid.SampledFrom([]int{0, 1, 8, 30, 100, 600}).Draw(t, "ml")}
	case 7:
		switch rapid.IntRange(0, 2).Draw(t, "limkind") {
		case 0:
			return vfPred{Kind: "limitzero"}
		case 1:
			return vfPred{Kind: "limitnonzero"}
		}
		return vfPred{Kind: "limitlt", N: rapid.SampledFrom([]int{1, 64, 4000}).Draw(t, "ll")}
	case 8:
		return vfPred{Kind: "always"}
	}
	return vfPred{Kind: "never"}
}

// vfExt describes one Extend call.
type vfExt struct {
	Parent  string   `json:"parent"` // "" = package-level Extend; otherwise Lookup(Parent).Extend
	Pred    vfPred   `json:"pred"`
	Mime    string   `json:"mime"`
	Ext     string   `json:"ext"`
	Aliases []string `json:"aliases,omitempty"`
}

// vfMethodOnly: in odd shards no check ever calls the package-level Extend; the root is extended
// through Lookup("application/octet-stream").Extend instead (the two must be interchangeable, and a
// process that never used the package-level function must be as safe as one that did).
func vfMethodOnly() bool { return vfShard()%2 == 1 }

func vfExtendRoot(det func([]byte, uint32) bool, mime, ext string, aliases ...string) {
	if vfMethodOnly() {
		Lookup("application/octet-stream").Extend(det, mime, ext, aliases...)
		return
	}
	Extend(det, mime, ext, aliases...)
}

// vfScribbleErr: Extend wrote into memory that belongs to its caller.
type vfScribbleErr struct{ msg string }

func (e *vfScribbleErr) Error() string { return e.msg }

// apply performs the Extend call. The aliases are handed over the way a caller with one flat
// table of names does it: as a window of a longer array (spare capacity behind it, a
// neighbour's names in front of it); the array must be unchanged afterwards.
func (e vfExt) apply() error {
	table := make([]string, 0, len(e.Aliases)+5)
	table = append(table, "application/x-verif-neighbour-before", "application/x-verif-neighbour-before-2")
	table = append(table, e.Aliases...)
	table = append(table, "application/x-verif-neighbour-after", "application/x-verif-neighbour-after-2", "application/x-verif-neighbour-after-3")
	want := append([]string(nil), table...)
	window := table[2 : 2+len(e.Aliases)]
	if len(e.Aliases) == 0 {
		window = table[2:2]
	}
	if e.Parent == "" {
		vfExtendRoot(e.Pred.fn(), e.Mime, e.Ext, window...)
	} else {
		p := Lookup(e.Parent)
		if p == nil {
			return fmt.Errorf("Lookup(%q) is nil", e.Parent)
		}
		p.Extend(e.Pred.fn(), e.Mime, e.Ext, window...)
	}
	for i := range want {
		if table[i] != want[i] {
			return &vfScribbleErr{fmt.Sprintf("Extend(%q, aliases %q) changed its caller's alias array: element %d (outside the %d aliases passed) is now %q, was %q", e.Mime, e.Aliases, i-2, len(e.Aliases), table[i], want[i])}
		}
	}
	return nil
}

// vfApplyFailed maps an apply error to a result: a missing parent excludes the case, a
// scribbled caller array is a violation.
func vfApplyFailed(err error) vfResult {
	var sc *vfScribbleErr
	if errors.As(err, &sc) {
		return vfResult{Err: err}
	}
	return vfResult{Skip: "extend-parent-missing"}
}

var vfExtParents = []string{"", "", "", "application/zip", "text/plain", "application/json", "text/xml", "application/x-ole-storage", "image/png", "video/mp4",
	"application/vnd.oasis.opendocument.text", "application/geo+json", "application/x-elf", "text/html", "application/x-tar", "application/octet-stream", "application/x-zip"}

// vfGenExt draws an Extend call; earlier holds the extensions registered so far in this case
// (so that extensions can be attached to extensions, by name or by alias).
func vfGenExt(t *rapid.T, idx int, earlier []vfExt) vfExt {
	e := vfExt{Pred: vfGenPred(t), Mime: fmt.Sprintf("application/x-verif-%d", idx), Ext: fmt.Sprintf(".vf%d", idx)}
	if len(earlier) > 0 && rapid.IntRange(0, 2).Draw(t, "onext") == 0 {
		p := rapid.SampledFrom(earlier).Draw(t, "extparent")
		e.Parent = p.Mime
		if len(p.Aliases) > 0 && rapid.Bool().Draw(t, "byalias") {
			e.Parent = p.Aliases[0]
		}
	} else {
		e.Parent = rapid.SampledFrom(vfExtParents).Draw(t, "parent")
	}
	for i, n := 0, rapid.IntRange(0, 2).Draw(t, "nalias"); i < n; i++ {
		e.Aliases = append(e.Aliases, fmt.Sprintf("application/x-verif-alias-%d-%d", idx, i))
	}
	// an alias may be spelled like the main name (or an alias) of a built-in node or of an
	// earlier extension: Lookup then finds whichever comes first in the depth-first walk
	if rapid.IntRange(0, 5).Draw(t, "aliascollides") == 0 {
		pool := []string{"application/zip", "text/plain", "application/json", "image/png", "application/x-zip", "application/x-tar", "text/xml", "application/x-gzip"}
		for _, x := range earlier {
			// aliases are registered in normal form (lower case, no parameters): Is compares them
			// verbatim with the normalised argument
			if x.Mime == strings.ToLower(x.Mime) && !strings.ContainsAny(x.Mime, "; \t\r\n\x7f") {
				pool = append(pool, x.Mime)
			}
		}
		e.Aliases = append(e.Aliases, rapid.SampledFrom(pool).Draw(t, "collidingalias"))
	}
	// the same name may be registered again (under the same or another parent), or collide with
	// a built-in format: every Extend call still adds a new node in front of the existing siblings
	// the primary name is stored and looked up verbatim: upper-case letters and parameters are legal
	switch rapid.IntRange(0, 13).Draw(t, "namestyle") {
	case 12: // names, extensions and aliases of any length are legal
		n := rapid.SampledFrom([]int{64, 255, 256, 1000, 5000}).Draw(t, "longname")
		e.Mime = fmt.Sprintf("application/x-verif-%d-%s", idx, strings.Repeat("x", n))
		e.Ext = fmt.Sprintf(".vf%d%s", idx, strings.Repeat("y", n/4))
		e.Aliases = append(e.Aliases, fmt.Sprintf("application/x-verif-alias-%d-%s", idx, strings.Repeat("z", n)))
	case 0:
		e.Mime = fmt.Sprintf("Application/X-Verif-%d", idx)
	case 1:
		e.Mime = fmt.Sprintf("application/x-verif-%d; version=2", idx)
	}
	// a decorated primary name (upper case, parameters) may come with the bare lower-case
	// spelling as an alias: Lookup compares raw strings, so both spellings must be found
	if (e.Mime != strings.ToLower(e.Mime) || strings.Contains(e.Mime, ";")) && rapid.Bool().Draw(t, "barealias") {
		bare := strings.ToLower(e.Mime)
		if i := strings.Index(bare, ";"); i >= 0 {
			bare = bare[:i]
		}
		e.Aliases = append(e.Aliases, bare)
	}
	// a format need not have a file extension
	if rapid.IntRange(0, 9).Draw(t, "noext") == 0 {
		e.Ext = ""
	}
	switch rapid.IntRange(0, 9).Draw(t, "dup") {
	case 0:
		if len(earlier) > 0 {
			e.Mime = rapid.SampledFrom(earlier).Draw(t, "dupof").Mime
		}
	case 1:
		if len(earlier) > 0 {
			d := rapid.SampledFrom(earlier).Draw(t, "dupof")
			e.Mime, e.Ext, e.Parent = d.Mime, d.Ext, d.Parent
		}
	case 2:
		e.Mime = rapid.SampledFrom([]string{"text/html", "application/zip", "application/json", "text/plain", "image/png"}).Draw(t, "builtin")
	}
	// the alias list may repeat the primary name (anywhere in the list)
	if rapid.IntRange(0, 9).Draw(t, "ownnamealias") == 0 {
		p := rapid.IntRange(0, len(e.Aliases)).Draw(t, "ownpos")
		e.Aliases = append(e.Aliases[:p:p], append([]string{e.Mime}, e.Aliases[p:]...)...)
	}
	return e
}

// ---------------------------------------------------------------------------------
// shadow tree: the model of Extend (prepend under the looked-up parent) and of detection
// (first-match descent). Built from the live tree at the start of a case.

type vfShadow struct {
	mime, ext string
	aliases   []string
	det       func([]byte, uint32) bool
	children  []*vfShadow
	parent    *vfShadow
	isExt     bool
}

func vfShadowFrom(m *MIME, parent *vfShadow) *vfShadow {
	s := &vfShadow{mime: m.mime, ext: m.extension, aliases: m.aliases, det: m.detector, parent: parent}
	for _, c := range m.children {
		s.children = append(s.children, vfShadowFrom(c, s))
	}
	return s
}

func (s *vfShadow) lookup(name string) *vfShadow {
	if s.mime == name {
		return s
	}
	for _, a := range s.aliases {
		if a == name {
			return s
		}
	}
	for _, c := range s.children {
		if r := c.lookup(name); r != nil {
			return r
		}
	}
	return nil
}

func (s *vfShadow) extend(e vfExt) error {
	p := s
	if e.Parent != "" {
		p = s.lookup(e.Parent)
		if p == nil {
			return fmt.Errorf("shadow: no node %q", e.Parent)
		}
	}
	n := &vfShadow{mime: e.Mime, ext: e.Ext, aliases: e.Aliases, det: e.Pred.fn(), parent: p, isExt: true}
	p.children = append([]*vfShadow{n}, p.children...)
	return nil
}

// walk returns the chain leaf-first as (mime, ext) pairs and whether any extension accepted.
func (s *vfShadow) walk(in []byte, limit uint32) (chain []vfNode, viaExt bool) {
	in = vfHeader(in, limit)
	cur := s
	for {
		var next *vfShadow
		for _, c := range cur.children {
			if c.det(in, limit) {
				next = c
				break
			}
		}
		if next == nil {
			break
		}
		cur = next
		if cur.isExt {
			viaExt = true
		}
	}
	for n := cur; n != nil; n = n.parent {
		chain = append(chain, vfNode{n.mime, n.ext})
	}
	return chain, viaExt
}

// anyExtAccepts reports whether some extension predicate anywhere in the tree accepts the header.
func (s *vfShadow) anyExtAccepts(in []byte, limit uint32) bool {
	h := vfHeader(in, limit)
	if s.isExt && s.det(h, limit) {
		return true
	}
	for _, c := range s.children {
		if c.anyExtAccepts(in, limit) {
			return true
		}
	}
	return false
}

// vfChainEq compares a result chain with an expected one, ignoring the charset parameter
// that detection attaches to the leaf.
func vfChainEq(got []vfNode, want []vfNode) bool {
	if len(got) != len(want) {
		return false
	}
	for i := range got {
		g := got[i].Mime
		if i == 0 && g != want[i].Mime {
			g = vfBare(g) // detection may have attached a charset parameter to the leaf
		}
		if g != want[i].Mime || got[i].Ext != want[i].Ext {
			return false
		}
	}
	return true
}

func vfChainFmt(c []vfNode) string {
	s := ""
	for i, n := range c {
		if i > 0 {
			s += " <- "
		}
		s += n.Mime + "(" + n.Ext + ")"
	}
	return s
}
