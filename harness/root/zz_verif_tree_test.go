//go:build verif

package mimetype

import (
	"bytes"
	"fmt"

	"pgregory.net/rapid"
)

// ---------------------------------------------------------------------------------
// tree snapshot / restore (in-package; used between cases so that Extend histories of one
// case cannot leak into the next)

type vfTreeSnap struct {
	nodes    []*MIME
	children [][]*MIME
	detector []func([]byte, uint32) bool
}

var vfSnap *vfTreeSnap

func vfTreeSnapshot() {
	if vfSnap != nil {
		return
	}
	s := &vfTreeSnap{}
	for _, n := range root.flatten() {
		s.nodes = append(s.nodes, n)
		s.children = append(s.children, append([]*MIME(nil), n.children...))
		s.detector = append(s.detector, n.detector)
	}
	vfSnap = s
}

func vfTreeRestore() {
	if vfSnap == nil {
		vfTreeSnapshot()
		return
	}
	mu.Lock()
	for i, n := range vfSnap.nodes {
		n.children = append([]*MIME(nil), vfSnap.children[i]...)
		n.detector = vfSnap.detector[i]
	}
	mu.Unlock()
}

// ---------------------------------------------------------------------------------
// serialisable detector predicates for extensions

type vfPred struct {
	Kind string `json:"kind"` // prefix | contains | lenmod | always | never | limitlt | minlen
	Arg  vfB    `json:"arg,omitempty"`
	N    int    `json:"n,omitempty"`
}

func (p vfPred) fn() func([]byte, uint32) bool {
	switch p.Kind {
	case "prefix":
		a := []byte(p.Arg)
		return func(raw []byte, _ uint32) bool { return bytes.HasPrefix(raw, a) }
	case "contains":
		a := []byte(p.Arg)
		return func(raw []byte, _ uint32) bool { return bytes.Contains(raw, a) }
	case "lenmod":
		n := p.N
		if n < 1 {
			n = 1
		}
		return func(raw []byte, _ uint32) bool { return len(raw)%n == 0 }
	case "minlen":
		n := p.N
		return func(raw []byte, _ uint32) bool { return len(raw) >= n }
	case "limitlt":
		n := uint32(p.N)
		return func(_ []byte, limit uint32) bool { return limit != 0 && limit < n }
	case "always":
		return func([]byte, uint32) bool { return true }
	}
	return func([]byte, uint32) bool { return false }
}

func vfGenPred(t *rapid.T) vfPred {
	switch rapid.IntRange(0, 9).Draw(t, "pk") {
	case 0, 1, 2:
		return vfPred{Kind: "prefix", Arg: vfB(rapid.SampledFrom([]string{"VF1:", "VF2:", "VF", "PK", "{", "<", "\x89PNG", "#!", "a", "", "\xd0\xcf"}).Draw(t, "pfx"))}
	case 3, 4:
		return vfPred{Kind: "contains", Arg: vfB(rapid.SampledFrom([]string{"a", "e", "\x00", "\n", ",", "VF", "xml", "\"", "1"}).Draw(t, "cnt"))}
	case 5:
		return vfPred{Kind: "lenmod", N: rapid.IntRange(1, 3).Draw(t, "mod")}
	case 6:
		return vfPred{Kind: "minlen", N: rapid.SampledFrom([]int{0, 1, 8, 30, 100, 600}).Draw(t, "ml")}
	case 7:
		return vfPred{Kind: "limitlt", N: rapid.SampledFrom([]int{1, 64, 4000}).Draw(t, "ll")}
	case 8:
		return vfPred{Kind: "always"}
	}
	return vfPred{Kind: "never"}
}

// vfExt describes one Extend call.
type vfExt struct {
	Parent  string   `json:"parent"` // "" = package-level Extend; otherwise Lookup(Parent).Extend
	Pred    vfPred   `json:"pred"`
	Mime    string   `json:"mime"`
	Ext     string   `json:"ext"`
	Aliases []string `json:"aliases,omitempty"`
}

func (e vfExt) apply() error {
	if e.Parent == "" {
		Extend(e.Pred.fn(), e.Mime, e.Ext, e.Aliases...)
		return nil
	}
	p := Lookup(e.Parent)
	if p == nil {
		return fmt.Errorf("Lookup(%q) is nil", e.Parent)
	}
	p.Extend(e.Pred.fn(), e.Mime, e.Ext, e.Aliases...)
	return nil
}

var vfExtParents = []string{"", "", "", "application/zip", "text/plain", "application/json", "text/xml", "application/x-ole-storage", "image/png", "video/mp4",
	"application/vnd.oasis.opendocument.text", "application/geo+json", "application/x-elf", "text/html", "application/x-tar", "application/octet-stream", "application/x-zip"}

// vfGenExt draws an Extend call; earlier holds the extensions registered so far in this case
// (so that extensions can be attached to extensions, by name or by alias).
func vfGenExt(t *rapid.T, idx int, earlier []vfExt) vfExt {
	e := vfExt{Pred: vfGenPred(t), Mime: fmt.Sprintf("application/x-verif-%d", idx), Ext: fmt.Sprintf(".vf%d", idx)}
	if len(earlier) > 0 && rapid.IntRange(0, 2).Draw(t, "onext") == 0 {
		p := rapid.SampledFrom(earlier).Draw(t, "extparent")
		e.Parent = p.Mime
		if len(p.Aliases) > 0 && rapid.Bool().Draw(t, "byalias") {
			e.Parent = p.Aliases[0]
		}
	} else {
		e.Parent = rapid.SampledFrom(vfExtParents).Draw(t, "parent")
	}
	for i, n := 0, rapid.IntRange(0, 2).Draw(t, "nalias"); i < n; i++ {
		e.Aliases = append(e.Aliases, fmt.Sprintf("application/x-verif-alias-%d-%d", idx, i))
	}
	// the same name may be registered again (under the same or another parent), or collide with
	// a built-in format: every Extend call still adds a new node in front of the existing siblings
	// the primary name is stored and looked up verbatim: upper-case letters and parameters are legal
	switch rapid.IntRange(0, 11).Draw(t, "namestyle") {
	case 0:
		e.Mime = fmt.Sprintf("Application/X-Verif-%d", idx)
	case 1:
		e.Mime = fmt.Sprintf("application/x-verif-%d; version=2", idx)
	}
	switch rapid.IntRange(0, 9).Draw(t, "dup") {
	case 0:
		if len(earlier) > 0 {
			e.Mime = rapid.SampledFrom(earlier).Draw(t, "dupof").Mime
		}
	case 1:
		if len(earlier) > 0 {
			d := rapid.SampledFrom(earlier).Draw(t, "dupof")
			e.Mime, e.Ext, e.Parent = d.Mime, d.Ext, d.Parent
		}
	case 2:
		e.Mime = rapid.SampledFrom([]string{"text/html", "application/zip", "application/json", "text/plain", "image/png"}).Draw(t, "builtin")
	}
	return e
}

// ---------------------------------------------------------------------------------
// shadow tree: the model of Extend (prepend under the looked-up parent) and of detection
// (first-match descent). Built from the live tree at the start of a case.

type vfShadow struct {
	mime, ext string
	aliases   []string
	det       func([]byte, uint32) bool
	children  []*vfShadow
	parent    *vfShadow
	isExt     bool
}

func vfShadowFrom(m *MIME, parent *vfShadow) *vfShadow {
	s := &vfShadow{mime: m.mime, ext: m.extension, aliases: m.aliases, det: m.detector, parent: parent}
	for _, c := range m.children {
		s.children = append(s.children, vfShadowFrom(c, s))
	}
	return s
}

func (s *vfShadow) lookup(name string) *vfShadow {
	if s.mime == name {
		return s
	}
	for _, a := range s.aliases {
		if a == name {
			return s
		}
	}
	for _, c := range s.children {
		if r := c.lookup(name); r != nil {
			return r
		}
	}
	return nil
}

func (s *vfShadow) extend(e vfExt) error {
	p := s
	if e.Parent != "" {
		p = s.lookup(e.Parent)
		if p == nil {
			return fmt.Errorf("shadow: no node %q", e.Parent)
		}
	}
	n := &vfShadow{mime: e.Mime, ext: e.Ext, aliases: e.Aliases, det: e.Pred.fn(), parent: p, isExt: true}
	p.children = append([]*vfShadow{n}, p.children...)
	return nil
}

// walk returns the chain leaf-first as (mime, ext) pairs and whether any extension accepted.
func (s *vfShadow) walk(in []byte, limit uint32) (chain []vfNode, viaExt bool) {
	in = vfHeader(in, limit)
	cur := s
	for {
		var next *vfShadow
		for _, c := range cur.children {
			if c.det(in, limit) {
				next = c
				break
			}
		}
		if next == nil {
			break
		}
		cur = next
		if cur.isExt {
			viaExt = true
		}
	}
	for n := cur; n != nil; n = n.parent {
		chain = append(chain, vfNode{n.mime, n.ext})
	}
	return chain, viaExt
}

// anyExtAccepts reports whether some extension predicate anywhere in the tree accepts the header.
func (s *vfShadow) anyExtAccepts(in []byte, limit uint32) bool {
	h := vfHeader(in, limit)
	if s.isExt && s.det(h, limit) {
		return true
	}
	for _, c := range s.children {
		if c.anyExtAccepts(in, limit) {
			return true
		}
	}
	return false
}

// vfChainEq compares a result chain with an expected one, ignoring the charset parameter
// that detection attaches to the leaf.
func vfChainEq(got []vfNode, want []vfNode) bool {
	if len(got) != len(want) {
		return false
	}
	for i := range got {
		g := got[i].Mime
		if i == 0 && g != want[i].Mime {
			g = vfBare(g) // detection may have attached a charset parameter to the leaf
		}
		if g != want[i].Mime || got[i].Ext != want[i].Ext {
			return false
		}
	}
	return true
}

func vfChainFmt(c []vfNode) string {
	s := ""
	for i, n := range c {
		if i > 0 {
			s += " <- "
		}
		s += n.Mime + "(" + n.Ext + ")"
	}
	return s
}
