#!/usr/bin/env python3
"""Regenerates MANIFEST.json from props.py (single source of truth for per-check texts)."""
import json, os, sys
VERIF = os.path.dirname(os.path.abspath(__file__))
sys.path.insert(0, VERIF)
from props import PROPS, NOT_APPLICABLE, SOURCE_COMMITS

ALL = [json.loads(l)["id"] for l in open(os.path.join(VERIF, "properties.jsonl")) if l.strip()]
checks = []
for pid in ALL:
    if pid not in PROPS:
        continue
    c = PROPS[pid]
    checks.append(dict(
        property_id=pid,
        quick_cmd=f"python3 /verif/vcheck.py {pid} --tier quick",
        thorough_cmd=f"python3 /verif/vcheck.py {pid} --tier thorough",
        evidence_file=f"/verif/evidence/{pid}.json",
        replay_cmd_template=f"python3 /verif/vcheck.py {pid} --replay {{path}}",
        engine="vcheck",
        level_claimed=dict(category=c.get("level", "exploration"), text=c["level_text"], design_ref=c.get("design_ref", "DESIGN.md section 4 / " + pid)),
        level_note=c["level_note"],
        technique=c["technique"],
    ))
na = [dict(property_id=p, reason=NOT_APPLICABLE[p]) for p in ALL if p not in PROPS]
missing = [p for p in ALL if p not in PROPS and p not in NOT_APPLICABLE]
assert not missing, missing
m = dict(
    version=1,
    setup_cmd="python3 /verif/setup.py",
    hooks=dict(
        guard="verif",
        enable="vcheck.py copies /repo's working tree to a temporary directory, adds /verif/harness/root/*_test.go (all '//go:build verif', package mimetype) and builds 'go test -c -tags verif' there; no file in /repo carries a hook",
        baseline_off_cmd="cd /repo && GOPROXY=off GOSUMDB=off GOTOOLCHAIN=local go test -json -vet=off -count=1 -timeout 25m ./...",
        source_commits=SOURCE_COMMITS,
        add_only=True,
    ),
    engines=[dict(name="vcheck", path="/verif/vcheck.py", serves_properties=[c["property_id"] for c in checks],
                  kind_free_text="property-based testing (pgregory.net/rapid v1.3.0: generators, stateful machines, shrinking), exhaustive small-scope enumeration, and native go fuzzing in the thorough tier; oracles are reference models, constructions, differentials and round-trips written in the injected harness")],
    checks=checks,
    notes="All checks rebuild from /repo's working tree on every invocation. Exit 2 = inconclusive (build failure, time budget, generator floor), never reported as a violation. Genuine defects found are listed in /verif/known_findings.json (fixed: entries name their 'fix:' commit in /repo).",
    not_applicable=na,
)
json.dump(m, open(os.path.join(VERIF, "MANIFEST.json"), "w"), indent=1)
print("checks:", len(checks), "not_applicable:", len(na))
