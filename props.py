"""Per-property configuration for vcheck.py: shards, time budgets, evidence texts."""

COMMON_ASSUME = [
    "executed on linux/amd64 with the sandbox's default Go toolchain; harness injected into a staged copy of /repo's working tree (repo's own *_test.go files excluded)",
    "rapid v1.3.0 drives all random choices; seed derived from VERIF_SEED, property, sub-check and shard",
]

SOURCE_COMMITS = []

PENDING = "check not built yet in this round (machinery under construction; see DESIGN.md section 4 for the planned generator and oracle)"
NOT_APPLICABLE = {p: PENDING for p in ["C03","C04","C05","C06","C14","C16","C17","C18","C19"]}

PROPS = {
    "C07": dict(
        shards=dict(quick=4, thorough=16),
        floor=dict(quick=1000, thorough=5000),
        rule="enum: every byte value 0..255 replaced at / inserted before every position of 35 text and BOM templates, each under limits {0, p, p+1, len, len+1}; gen: rapid-generated text with injected bytes, BOM+garbage, de-binarised binary seeds, byte-class strings, broad inputs, boundary-biased limits. Non-trivial = examined header contains a byte <0x20 other than TAB/LF/CR, or >=0x7F, or a BOM, or a binary-data byte lies directly beyond the limit. Distinct by hash(x, limit).",
        technique="exhaustive byte-value x position enumeration plus rapid-generated inputs, against a byte-class reference oracle",
        level_text="Exploration: both directions of the text/binary partition are decided for every byte value at every position of 35 templates under five limit placements (about 1.9M detections, complete for that scope) and for generated inputs beyond it. This is the right level because the property is a partition of the input space by a byte-class predicate: small-scope exhaustiveness over byte value x position x limit placement covers every way a single byte can flip the verdict; absence beyond the scope is not established.",
        level_note="Trusted: the oracle's transcription of the WHATWG binary-data-byte table and BOM list; Go runtime. The harness builds in a staged copy of the working tree.",
        assumptions=COMMON_ASSUME + ["oracle: WHATWG binary-data-byte table and the five BOMs, written independently of magic.Text"],
    ),
    "C08": dict(
        shards=dict(quick=4, thorough=16),
        floor=dict(quick=500, thorough=5000),
        technique="grammar-based generation of valid RFC 8259 documents (rapid), every cut point checked against the construction oracle 'valid JSON must be recognised'",
        level_text="Exploration: generated valid documents (all token spellings, whitespace layouts, strings containing structural characters and escapes, nesting chains of depth 4088..4096) are each examined at every limit from just after the opening bracket to beyond the end, directly through magic.JSON and through Detect. Completeness over an unbounded grammar can only be sampled; the generator is built so that every cut class (inside string / escape / number / literal, after each structural character, limit == len) occurs thousands of times per run.",
        level_note="Trusted: the document generator (every document is cross-checked with encoding/json.Valid), the tree-position rule used to classify higher-priority exceptions (svg, offset signatures), Go runtime.",
        rule="gen: rapid grammar for RFC 8259 objects/arrays (depth<=6, 0-4 members per container, strings assembled from 42 pieces incl. , : { } [ ] escapes \\uXXXX and multi-byte UTF-8; 16 number spellings; JSON whitespace between any two tokens); each document is checked at limit 0 and at EVERY limit from index-of-opening-bracket+1 to len+2 (evaluations counts (document, limit) pairs). deep: nesting chains of depth 4088..4096 in three shapes, boundary and strided cuts. Non-trivial document = has at least one cut strictly inside a string/number/literal token or directly after a structural character; distinct by hash(document). Label counts give the number of cuts per class.",
        assumptions=COMMON_ASSUME + ["higher-priority exception = a root child before text/plain, or a text/plain child before json, accepts the same header (decided by calling those detectors); counted in labels"],
    ),
    "C09": dict(
        shards=dict(quick=4, thorough=16),
        floor=dict(quick=100000, thorough=1000000),
        technique="exhaustive enumeration of all strings over a 16-symbol JSON alphabet (bounded length) plus rapid mutation of valid documents, against an independent pushdown recogniser for the relaxed grammar",
        level_text="Exploration, exhaustive in a small scope: every string over the alphabet [ ] { } \" : , SP \\ n u l 1 - . e up to length 6 (17.9M strings; length 8 for strings opening with a bracket in the thorough tier) is judged in whole and truncated mode against a reference recogniser R written from the property text; beyond that scope, one- and two-byte mutations of generated valid documents. Soundness over all strings outside a language is a for-all claim; the small-scope hypothesis fits because every parser decision (separator, closer, failed inner value) is reachable within 6-8 symbols.",
        level_note="Trusted: the reference recogniser R (deliberately a superset of anything the property tolerates: liberal numbers, raw bytes in strings, one trailing comma, no depth limit, no UTF-8 validation), Go runtime.",
        rule="enum: all strings over the 16-symbol alphabet up to length 6 (quick) / additionally length 7-8 opening with ws*[[{] (thorough), each in whole mode (limit 0) and truncated mode (limit=len); non-trivial = first non-space byte is [ or { so the parser is entered; distinct by construction (each string/mode pair enumerated once). mut: rapid: valid document + 1-2 byte-level mutations (delete/insert/replace/duplicate/swap/drop-closer/splice) at limits {0,len,len+1,random cut}; distinct by hash(header,limit).",
        assumptions=COMMON_ASSUME + ["R accepts a superset of what the property tolerates, so a verdict 'not in R' is always a real malformation"],
    ),
    "C10": dict(
        shards=dict(quick=4, thorough=16),
        floor=dict(quick=5000, thorough=50000),
        technique="construction-based generation (rapid): JSON objects assembled from deciding members, look-alikes and arbitrary siblings with recorded spans; expected sub-type computed from the construction",
        level_text="Exploration: the generator builds top-level objects with 0-6 members in random order (deciding geo/har/gltf members, 33 look-alikes at wrong depth / wrong value / wrong container, arbitrary siblings incl. non-empty arrays and nested objects re-using the key names), random whitespace layout and limits (0, len, len+1, cuts outside deciding spans) and knows by construction which sub-type must be reported, including the precedence geo > har > gltf. Order/content independence quantifies over all sibling shapes, which can only be sampled; the generator is measured to put a non-empty container before the deciding member in a large share of cases, which is the condition the path stack is sensitive to.",
        level_note="Trusted: the generator's span bookkeeping (documents are cross-checked with encoding/json.Valid); keys and deciding values are spelled literally as the property states.",
        rule="rapid: object of 0-6 members: deciding (\"type\":<9 names>; \"log\":{fillers,version|creator|entries:any value,fillers}; \"asset\":{fillers,\"version\":\"1.0\"|\"2.0\",fillers}), look-alikes, arbitrary siblings (depth<=3); limit in {0,len,len+1, random cut snapped out of deciding spans}. Expected = geo if a geo span ends <= L, else har, else gltf, else application/json; String() and Extension() compared. Non-trivial = deciding member preceded by a non-empty container sibling, or >=2 deciding kinds, or a look-alike present, or a sibling with a non-empty container; distinct by hash(doc,limit).",
        assumptions=COMMON_ASSUME + ["cuts strictly inside a deciding member are outside the property's domain and are counted as excluded"],
    ),
    "C11": dict(
        shards=dict(quick=4, thorough=16),
        floor=dict(quick=100000, thorough=1000000),
        technique="exhaustive enumeration over a 24-symbol byte-class alphabet (bounded length) plus real multilingual text cut at every limit and rapid-generated text, against a reference predicate built on unicode/utf8",
        level_text="Exploration, exhaustive in a small scope: every string over a byte-class alphabet (ASCII letter, SP, LF, DEL, ESC; UTF-8 leads C0 C3 E0 E2 ED F0 F4 F5; continuations 80 85 9F A0 A9 BF; FF FE EF BB; NUL) up to length 5 (8.3M strings; length 6 = 199M in the thorough tier) is passed to charset.FromPlain and judged by an oracle written from the property (strict UTF-8 with an optional cut-off final sequence, C1 range rule, BOM table); short strings and a sample of longer ones also go through Detect. The interesting cases are positional (which rune is last, where the limit cuts it), and all positions up to 5-6 byte classes are covered; real texts in several scripts and encodings are cut at every limit.",
        level_note="Trusted: unicode/utf8 (Valid, FullRune) as the definition of UTF-8; the oracle takes the weaker reading where the statement is silent (empty input; FF FE 00 00 may be read as UTF-32LE or UTF-16LE; no claim when a header is ASCII plus a cut-off lead byte).",
        rule="enum: all strings over the 24-symbol alphabet up to length 5 (quick) / 6 (thorough) that are BOM-led or free of binary-data bytes (others counted as excluded) -> charset.FromPlain; Detect level for length<=3 and every 61st longer string. cuts: 14 real/hostile texts (Greek, Japanese, emoji, Latin-1, CP1252, overlong, surrogate) at every limit through Detect and FromPlain. gen: rapid: texts with 0-2 replaced bytes, UTF-8/Latin piece strings, byte-class strings of length 6-14, boundary-biased limits. Non-trivial = header contains a byte >= 0x80; enum cases are distinct by construction, others by hash(x,limit,via).",
        assumptions=COMMON_ASSUME + ["domain restricted, as the property states, to headers that start with a BOM or contain no binary-data byte"],
    ),
    "C12": dict(
        shards=dict(quick=4, thorough=16),
        floor=dict(quick=5000, thorough=50000),
        technique="grammar/construction-based generation (rapid) of HTML and XML prologues with exactly one charset declaration; expected label known by construction",
        level_text="Exploration: generated HTML documents (9 start forms, 0-4 prologue pieces incl. comments/scripts/styles/titles holding fake metas and non-declaring metas, one declaring meta in direct or pragma form with every quoting style, attribute order, letter case, whitespace around '=' and tag ending, optional UTF-8 BOM, tails in other encodings) and XML 1.0 declarations (both quote styles, optional white space around '=', optional standalone, decoy encoding= text afterwards) carry known or random RFC 2045 token labels; the limit is drawn from [end of declaration, len+2]. The label and syntax space is open-ended, so it is sampled; the construction guarantees every case is inside the property's domain.",
        level_note="Trusted: the generator's claim that each document has exactly one declaration a conforming HTML/XML processor would honour; mime.ParseMediaType to read the charset parameter back. Labels exclude & ' ` (HTML would reinterpret them) and free-form labels starting with utf-16.",
        rule="html: rapid: [BOM] ws start-tag prologue* declaring-meta tail; xml: ws <?xml version eq q encoding eq q [standalone] ?> tail. Checked through Detect at the drawn limit and through charset.FromHTML/FromXML on the examined header. Non-trivial = label other than utf-8, or a fake/decoy declaration present, or BOM present, or white space around '=' in the XML declaration; distinct by hash(doc,limit).",
        assumptions=COMMON_ASSUME + ["after '<?xml' the generator writes a space (the markup signature requires it); white space is varied everywhere else"],
    ),
    "C13": dict(
        shards=dict(quick=4, thorough=16),
        floor=dict(quick=5000, thorough=50000),
        technique="construction-based generation (rapid) of rectangular CSV/TSV tables and NDJSON streams checked at every cut after the second complete line; converse by generated ragged/damaged inputs and by a reference line/field counter and JSON recogniser over arbitrary text",
        level_text="Exploration: (fwd) generated tables (2-6 columns, 2-8 records, comma or TAB, LF or CRLF, final terminator present or not, bare/quoted/doubled-quote/empty fields, '#' comment lines) and NDJSON streams (2-8 compact values, first an object or array) must keep their type at limit 0 and at EVERY limit from the end of the second complete record line to len+1; (neg) the same documents with one record made ragged, or one NDJSON line damaged, inside the complete-line region must not be reported as that type; (txt) on arbitrary generated text a CSV/TSV verdict implies equal separator counts >= 1 on all complete non-comment lines (judged on quote-free text) and an NDJSON verdict implies the line conditions, using reference oracles. The claim is about every cut position relative to line boundaries, so cuts are enumerated, documents sampled.",
        level_note="Trusted: the table/stream generators, the reference line splitter (LF-terminated lines are complete in truncated mode) and the relaxed JSON recogniser R. Higher-priority signatures are decided by calling the earlier siblings' detectors and are counted as excluded.",
        rule="fwd: rapid tables/streams; every limit in {0, len+1, len+7} U [end of 2nd complete record line .. len]; evaluations = (document, limit) pairs; non-trivial document = at least one cut inside a line / on the LF / between CR and LF / limit==len. neg: one ragged record (field added/removed) or one damaged NDJSON line (truncated value, trailing garbage, unbalanced, not JSON) with the limit keeping that line complete; non-trivial = damaged line is not the last line. txt: 1-16 pieces from a CSV/NDJSON-flavoured vocabulary, boundary-biased limits; non-trivial = some line-format check accepted the header. Distinct by hash(doc[,limit]).",
        assumptions=COMMON_ASSUME + ["records occupy one line (no embedded newlines), as the property states; the CSV line-count oracle is applied to quote-free headers only (quoted acceptances are counted, not judged)"],
    ),
    "C01": dict(
        shards=dict(quick=8, thorough=16),
        floor=dict(quick=20000, thorough=200000),
        journal_is_violation=True,
        fuzz=dict(target="FuzzVerif_C01", seconds=180, workers=16),
        technique="rapid-generated and mutated headers (seed-and-mutate with hostile integers at length fields, structured zip/CRX/OLE/tar/TZif/ftyp/RIFF builders), exhaustive prefix truncation of every seed, and native coverage-guided fuzzing (thorough), with recover()-guarded calls on exact-capacity slices",
        level_text="Exploration: every case runs all ~190 registered signature checks directly (on the examined header as an exact-capacity slice and on the full input), the three charset sniffers, the JSON scanner with all four queries, and Detect / DetectReader / DetectFile under the generated limit (any uint32 for Detect and direct calls). Every prefix of every seed header is enumerated; generated cases mutate seeds with hostile 32-bit values at the offsets where lengths are read. Crash freedom over all inputs cannot be established by testing; the thorough tier adds a coverage-guided campaign on the same target.",
        level_note="Trusted: Go's bounds checking turns any out-of-range read into a panic (so 'never reads outside the bytes given' is observable only as 'no reslice beyond len on an exact-capacity slice'); termination is observed under a time budget (a hang is reported as inconclusive with the journaled input). DetectReader/DetectFile are exercised for limits <= 16 MiB because DetectReader allocates 'limit' bytes by design. 32-bit overflow is not executable here.",
        rule="gen: rapid: random bytes <=64 | seed mutated by up to 5 ops (replace/insert/delete/truncate/hostile LE/BE uint32 at hot offsets/splice/tail/pad-to-boundary) | structured zip-local-header, CRX, OLE, tar, TZif, ftyp, RIFF builders with hostile sizes | text pieces; limit boundary-biased incl. 0, len, len+-1, 2^31, 2^32-1; 1 in 16 cases also through DetectFile. prefixes: every prefix of the 215 seed headers x 5 limits. Non-trivial = some non-root signature check accepts the header, or the truncated branch (0 < limit <= len) runs; distinct by hash(x,limit).",
        assumptions=COMMON_ASSUME + ["a shard killed by a fatal runtime error is reported as a violation with the journaled case; a timeout is reported as inconclusive"],
    ),
    "C02": dict(
        shards=dict(quick=4, thorough=16),
        floor=dict(quick=5000, thorough=50000),
        fuzz=dict(target="FuzzVerif_C02", seconds=120, workers=16),
        technique="rapid-generated HTML/XML headers carrying hostile charset labels plus broad inputs through all entry points (incl. failing readers, missing files, directories), judged by a round-trip through mime.ParseMediaType and the registered-name set",
        level_text="Exploration: strings synthesised at run time are the risk, so the generator concentrates on <meta charset>, http-equiv pragmas and XML declarations whose label is built from hostile pieces (quotes, separators, backslash, CR/LF/TAB, NUL, DEL, non-ASCII, invalid UTF-8, HTML entities decoding to such bytes, RFC 2231 look-alikes, 100-400 byte labels), BOM variants and the general input distribution, under boundary-biased limits and every entry point; each returned value is checked for parseability, registered type, parameter discipline, a finite parameter-free ancestor chain ending at application/octet-stream, and the exact error-path value.",
        level_note="Trusted: mime.ParseMediaType as the definition of a valid media type string; the registered set is read once from the live tree.",
        rule="rapid: html direct meta | html pragma | xml declaration with labels assembled from 52 hostile pieces or long repeats; BOM+text; broad inputs; entry in {Detect, DetectReader, failing reader at offset k, DetectFile on a temp file, missing path, directory}. Non-trivial = the reported charset value is not an RFC 2045 token (had to be quoted or RFC 2231-encoded) or an error path was taken; distinct by hash(doc,limit,entry,errAt).",
        assumptions=COMMON_ASSUME,
    ),
    "C15": dict(
        shards=dict(quick=4, thorough=16),
        floor=dict(quick=5000, thorough=50000),
        technique="rapid-generated decorations (case, white space, well-formed parameter lists) of every registered name and alias and of near-misses, against a normalise-and-compare reference; detection results from the hostile-label generator for the reflexive laws",
        level_text="Exploration: (names) every registered type and alias is looked up and must Is() itself - complete for the tree; (dec) random (format, candidate name) pairs with random letter case, leading/trailing white space and 0-3 well-formed parameters with distinct keys are compared with the reference 'lower-cased candidate equals the format's type or one of its aliases', and EqualsAny with 'lower-cased names equal'; (results) detection results, including those carrying quoted or RFC 2231-encoded charset values, must satisfy d.Is(d.String()), EqualsAny(d.String(), d.String()) and Lookup(bare type).Is(d.String()). The family of spellings is unbounded, hence sampled.",
        level_note="Trusted: the reference normalisation (ASCII lower-casing of generated token names); alias sets are read from the live tree.",
        rule="names: all registered names/aliases (exhaustive for the tree). dec: rapid: node x (own name | other node's name | near-miss) decorated; non-trivial = decoration changed the string and added parameters or changed case. results: inputs from the C02 generator; non-trivial = result carries a parameter. Distinct by hash of the operands.",
        assumptions=COMMON_ASSUME + ["parameters are well-formed with distinct keys, as the property states"],
    ),
}
