"""Per-property configuration for vcheck.py: shards, time budgets, evidence texts."""

COMMON_ASSUME = [
    "executed on linux/amd64 with the sandbox's default Go toolchain; harness injected into a staged copy of /repo's working tree (repo's own *_test.go files excluded)",
    "rapid v1.3.0 drives all random choices; seed derived from VERIF_SEED, property, sub-check and shard",
]

SOURCE_COMMITS = []

PENDING = "check not built yet in this round (machinery under construction; see DESIGN.md section 4 for the planned generator and oracle)"
NOT_APPLICABLE = {p: PENDING for p in ["C01","C02","C03","C04","C05","C06","C08","C09","C10","C11","C12","C13","C14","C15","C16","C17","C18","C19"]}

PROPS = {
    "C07": dict(
        shards=dict(quick=4, thorough=16),
        floor=dict(quick=1000, thorough=5000),
        rule="enum: every byte value 0..255 replaced at / inserted before every position of 35 text and BOM templates, each under limits {0, p, p+1, len, len+1}; gen: rapid-generated text with injected bytes, BOM+garbage, de-binarised binary seeds, byte-class strings, broad inputs, boundary-biased limits. Non-trivial = examined header contains a byte <0x20 other than TAB/LF/CR, or >=0x7F, or a BOM, or a binary-data byte lies directly beyond the limit. Distinct by hash(x, limit).",
        technique="exhaustive byte-value x position enumeration plus rapid-generated inputs, against a byte-class reference oracle",
        level_text="Exploration: both directions of the text/binary partition are decided for every byte value at every position of 35 templates under five limit placements (about 1.9M detections, complete for that scope) and for generated inputs beyond it. This is the right level because the property is a partition of the input space by a byte-class predicate: small-scope exhaustiveness over byte value x position x limit placement covers every way a single byte can flip the verdict; absence beyond the scope is not established.",
        level_note="Trusted: the oracle's transcription of the WHATWG binary-data-byte table and BOM list; Go runtime. The harness builds in a staged copy of the working tree.",
        assumptions=COMMON_ASSUME + ["oracle: WHATWG binary-data-byte table and the five BOMs, written independently of magic.Text"],
    ),
}
