#!/usr/bin/env python3
"""Offline setup: verifies the toolchain and module cache by staging /repo and building the
harness once (this also warms the Go build cache so that quick checks start fast)."""
import os, shutil, subprocess, sys, tempfile
VERIF = os.path.dirname(os.path.abspath(__file__))
sys.path.insert(0, VERIF)
import vcheck
d = tempfile.mkdtemp(prefix="vf-setup-")
try:
    stage = os.path.join(d, "src")
    vcheck.stage_repo(stage)
    rc, out = vcheck.build(stage, False, None)
    if rc != 0:
        print(out); sys.exit(1)
    rc, out = vcheck.build(stage, True, None)   # race build used by C06
    if rc != 0:
        print(out); sys.exit(1)
    for sub in ("evidence", "replays"):
        os.makedirs(os.path.join(VERIF, sub), exist_ok=True)
    print("setup ok")
finally:
    shutil.rmtree(d, ignore_errors=True)
