#!/usr/bin/env python3
"""Automatic mutation campaign (sensitivity measurement, DESIGN.md section 8).

Generates first-order mutants of the property-bearing source files (relational and logical
operators, integer literals +-1, true/false, dropped negations, break->continue, deleted simple
assignments), keeps those that compile AND pass the repository's own test suite, and runs the
quick checks of the properties anchored in that file against each survivor.

Nothing in /repo or /verif is touched: the mutants live in a scratch worktree
(/tmp/automut-repo) and the checks run from a scratch copy of /verif (/tmp/automut-verif) with
VERIF_REPO pointing at the worktree; both are removed at the end.  Results are appended to
tools/automut_results.json (resumable).

usage: automut.py [--n 200] [--seed 1] [--budget MIN] [--files a.go,b.go] [--list]
"""
import json
import os
import random
import re
import shutil
import subprocess
import sys
import time

VERIF = os.path.dirname(os.path.dirname(os.path.abspath(__file__)))
REPO = "/repo"
WT = "/tmp/automut-repo"
VCOPY = "/tmp/automut-verif"
OUT = os.path.join(VERIF, "tools", "automut_results.json")
ENV = dict(os.environ, GOFLAGS="-mod=mod", GOPROXY="off", GOSUMDB="off", GOTOOLCHAIN="local")

# file -> properties anchored in it (the first ones are the most likely to notice)
TARGETS = {
    "internal/json/parser.go": ["C09", "C08", "C10", "C13", "C16", "C01"],
    "internal/charset/charset.go": ["C11", "C12", "C07", "C01"],
    "internal/magic/text.go": ["C07", "C10", "C13", "C12", "C11", "C03", "C01"],
    "internal/magic/text_csv.go": ["C13", "C04", "C01"],
    "internal/magic/zip.go": ["C19", "C17", "C04", "C01"],
    "internal/magic/archive.go": ["C18", "C17", "C01"],
    "internal/magic/magic.go": ["C17", "C07", "C13", "C01", "C04"],
    "mimetype.go": ["C05", "C04", "C01", "C06", "C14"],
    "mime.go": ["C03", "C02", "C14", "C15", "C11", "C12", "C06"],
}


def sh(cmd, cwd=None, timeout=None, env=None):
    try:
        return subprocess.run(cmd, shell=True, cwd=cwd, stdout=subprocess.PIPE, stderr=subprocess.STDOUT,
                              text=True, errors="replace", env=env or ENV, timeout=timeout)
    except subprocess.TimeoutExpired as e:
        class R:  # noqa
            returncode = 124
            stdout = (e.stdout or b"").decode("utf-8", "replace") if isinstance(e.stdout, bytes) else (e.stdout or "")
        return R()


def code_mask(src):
    """True for every byte that is Go code (not comment, string, rune)."""
    m = [True] * len(src)
    i, n = 0, len(src)
    while i < n:
        c = src[i]
        if src.startswith("//", i):
            j = src.find("\n", i)
            j = n if j < 0 else j
        elif src.startswith("/*", i):
            j = src.find("*/", i + 2)
            j = n if j < 0 else j + 2
        elif c == '"':
            j = i + 1
            while j < n and src[j] != '"':
                j += 2 if src[j] == "\\" else 1
            j += 1
        elif c == "`":
            j = src.find("`", i + 1) + 1
        elif c == "'":
            j = i + 1
            while j < n and src[j] != "'":
                j += 2 if src[j] == "\\" else 1
            j += 1
        else:
            i += 1
            continue
        for k in range(i, min(j, n)):
            m[k] = False
        i = j
    return m


def mutants_of(path, src):
    mask = code_mask(src)
    out = []

    def add(a, b, new, kind):
        if all(mask[a:b]):
            out.append(dict(file=path, start=a, end=b, old=src[a:b], new=new, kind=kind,
                            line=src.count("\n", 0, a) + 1))

    for mo in re.finditer(r"==|!=|<=|>=|&&|\|\|", src):
        a, b = mo.span()
        t = mo.group()
        # skip <<= >>= etc.
        if t in ("<=", ">=") and a > 0 and src[a - 1] in "<>":
            continue
        add(a, b, {"==": "!=", "!=": "==", "<=": "<", ">=": ">", "&&": "||", "||": "&&"}[t], "relop")
    for mo in re.finditer(r"(?<![<\-=!>])([<>])(?![<>=\-])", src):
        a, b = mo.span(1)
        add(a, b, mo.group(1) + "=", "relop-eq")
    for mo in re.finditer(r"(?<=[\w\)\]])\s*([+\-])\s*(?=[\w\(])", src):
        a, b = mo.span(1)
        if src[a - 1] in "+-" or src[b] in "+-=":
            continue
        add(a, b, "-" if mo.group(1) == "+" else "+", "arith")
    for mo in re.finditer(r"(?<![\w\.])(0x[0-9a-fA-F]+|\d+)(?![\w\.])", src):
        a, b = mo.span(1)
        t = mo.group(1)
        if not t.startswith("0x") and len(t) > 1 and t[0] == "0":
            continue
        v = int(t, 0)
        if t.startswith("0x"):
            add(a, b, hex(v + 1), "lit+1")
            if v > 0:
                add(a, b, hex(v - 1), "lit-1")
        else:
            if len(t) > 1 and t[0] == "0":
                continue
            add(a, b, str(v + 1), "lit+1")
            if v > 0:
                add(a, b, str(v - 1), "lit-1")
    for mo in re.finditer(r"\b(true|false)\b", src):
        a, b = mo.span()
        add(a, b, "false" if mo.group() == "true" else "true", "bool")
    for mo in re.finditer(r"!(?=[\w\(])", src):
        a, b = mo.span()
        add(a, b, "", "unneg")
    for mo in re.finditer(r"^[ \t]*break[ \t]*$", src, re.M):
        a, b = mo.span()
        add(a, b, src[a:b].replace("break", "continue"), "brk")
    for mo in re.finditer(r"^[ \t]*[\w\.\[\]]+[ \t]*(=|\+=|-=|\|=)[^=\n][^\n{]*$|^[ \t]*[\w\.\[\]]+(\+\+|--)[ \t]*$", src, re.M):
        a, b = mo.span()
        add(a, b, "", "delstmt")
    return out


def setup():
    cleanup()
    r = sh(f"git -C {REPO} worktree add -q --detach {WT} HEAD")
    assert r.returncode == 0, r.stdout
    os.makedirs(VCOPY)
    sh(f"rsync -a --exclude .git --exclude seeded --exclude replays --exclude __pycache__ {VERIF}/ {VCOPY}/")


def cleanup():
    if os.path.exists(WT):
        sh(f"git -C {REPO} worktree remove --force {WT}")
    shutil.rmtree(WT, ignore_errors=True)
    sh(f"git -C {REPO} worktree prune")
    shutil.rmtree(VCOPY, ignore_errors=True)


def main():
    av = sys.argv[1:]

    def opt(name, default):
        return av[av.index(name) + 1] if name in av else default

    n = int(opt("--n", "200"))
    seed = int(opt("--seed", "1"))
    budget = float(opt("--budget", "600")) * 60
    files = opt("--files", None)
    files = files.split(",") if files else list(TARGETS)
    allm = []
    for f in files:
        src = open(os.path.join(REPO, f)).read()
        allm += mutants_of(f, src)
    if "--list" in av:
        by = {}
        for m in allm:
            by[(m["file"], m["kind"])] = by.get((m["file"], m["kind"]), 0) + 1
        for k in sorted(by):
            print(k, by[k])
        print("total", len(allm))
        return
    rnd = random.Random(seed)
    rnd.shuffle(allm)
    results = json.load(open(OUT)) if os.path.exists(OUT) else {"head": None, "mutants": {}}
    head = sh(f"git -C {REPO} rev-parse --short HEAD").stdout.strip()
    if results.get("head") != head:
        results = {"head": head, "mutants": {}}
    t0 = time.time()
    setup()
    try:
        done = 0
        for m in allm:
            if done >= n or time.time() - t0 > budget:
                break
            key = f"{m['file']}:{m['line']}:{m['start']}:{m['kind']}:{m['old']!r}->{m['new']!r}"
            if key in results["mutants"]:
                continue
            done += 1
            p = os.path.join(WT, m["file"])
            src = open(os.path.join(REPO, m["file"])).read()
            open(p, "w").write(src[:m["start"]] + m["new"] + src[m["end"]:])
            rec = dict(kind=m["kind"], line=m["line"], text=src.splitlines()[m["line"] - 1].strip()[:160])
            try:
                r = sh("go build ./... && go test -vet=off -count=1 -timeout 60s ./...", cwd=WT, timeout=120)
                if r.returncode != 0:
                    rec["status"] = "killed-by-suite" if "FAIL" in r.stdout or r.returncode == 124 else "no-compile"
                    if "panic: test timed out" in r.stdout:
                        rec["status"] = "killed-by-suite"
                else:
                    rec["status"] = "missed"
                    rec["checked"] = []
                    env = dict(ENV, VERIF_REPO=WT, VERIF_SEED="1")
                    for prop in TARGETS[m["file"]]:
                        c = sh(f"python3 vcheck.py {prop}", cwd=VCOPY, timeout=900, env=env)
                        rec["checked"].append([prop, c.returncode])
                        if c.returncode == 1 and "VIOLATION" in c.stdout:
                            rec["status"] = "caught"
                            rec["by"] = prop
                            break
            finally:
                open(p, "w").write(src)
            results["mutants"][key] = rec
            print(f"[{done}/{n} {int(time.time()-t0)}s] {rec['status']:16} {rec.get('by','   ')} {m['file']}:{m['line']} {m['kind']} {m['old']!r}->{m['new']!r}  | {rec['text'][:90]}", flush=True)
            json.dump(results, open(OUT, "w"), indent=1, sort_keys=True)
    finally:
        cleanup()
    st = {}
    for r in results["mutants"].values():
        st[r["status"]] = st.get(r["status"], 0) + 1
    print("TOTAL", st)


if __name__ == "__main__":
    main()
