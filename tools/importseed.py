#!/usr/bin/env python3
"""Validates a sub-agent's seeded change and keeps it under /verif/seeded/<id>/.

  tools/importseed.py C07 A [C07 B ...]      (reads /tmp/seed-C07-out/A/{patch.diff,demo_test.go,README.md})

Confirmed here, in the agent's scratch worktree /tmp/seed-<prop> (never in /repo):
  * the patch applies to a clean checkout of /repo's HEAD and touches no *_test.go file
  * with the patch the repository's own suite passes
  * with the patch the demonstration test FAILS; without it the demonstration PASSES
Only then is the change kept (patch.diff, demo_test.go, README.md, meta.json).
"""
import json, os, re, shutil, subprocess, sys

VERIF = os.path.dirname(os.path.dirname(os.path.abspath(__file__)))
ENV = dict(os.environ, GOFLAGS="-mod=mod", GOPROXY="off", GOSUMDB="off", GOTOOLCHAIN="local")


def sh(cmd, cwd=None):
    return subprocess.run(cmd, shell=True, cwd=cwd, stdout=subprocess.PIPE, stderr=subprocess.STDOUT, text=True, env=ENV)


def main():
    a = sys.argv[1:]
    rnd = ""
    if a and a[0] == "--round":
        rnd = a[1]
        a = a[2:]
    for prop, x in zip(a[0::2], a[1::2]):
        wt = f"/tmp/seed{rnd}-{prop}"
        src = f"/tmp/seed{rnd}-{prop}-out/{x}"
        # round 2 deliverables A, B are kept as C, D (round 3: E, F ...)
        letter = x if not rnd else chr(ord(x) + 2 * (int(rnd) - 1))
        sid = f"{prop}-{letter}"
        if not os.path.exists(f"{src}/patch.diff") or not os.path.exists(f"{src}/demo_test.go"):
            print(f"{sid}: missing deliverables"); continue
        head = sh("git -C /repo rev-parse HEAD").stdout.strip()
        sh(f"git checkout -q --detach {head} && git checkout -- . && git clean -fdq", cwd=wt)
        patch = open(f"{src}/patch.diff").read()
        touched = re.findall(r"^\+\+\+ b/(.*)$", patch, re.M)
        if any(t.endswith("_test.go") for t in touched):
            print(f"{sid}: REJECTED patch touches test files {touched}"); continue
        demo = open(f"{src}/demo_test.go").read()
        m = re.match(r"//\s*dir:\s*(\S+)", demo)
        ddir = m.group(1) if m else "."
        dpath = os.path.join(wt, ddir, "zz_seed_demo_test.go")
        try:
            r = sh(f"git apply {src}/patch.diff", cwd=wt)
            if r.returncode != 0:
                print(f"{sid}: REJECTED patch does not apply: {r.stdout[:300]}"); continue
            suite = sh("go build ./... && go test -vet=off -count=1 ./...", cwd=wt)
            if suite.returncode != 0:
                print(f"{sid}: REJECTED suite fails with the change:\n{suite.stdout[-800:]}"); continue
            shutil.copy(f"{src}/demo_test.go", dpath)
            with_change = sh(f"go test -vet=off -count=1 ./{ddir}", cwd=wt)
            sh("git checkout -- .", cwd=wt)
            without = sh(f"go test -vet=off -count=1 ./{ddir}", cwd=wt)
            if with_change.returncode == 0:
                print(f"{sid}: REJECTED demo passes WITH the change"); continue
            if without.returncode != 0:
                print(f"{sid}: REJECTED demo fails WITHOUT the change:\n{without.stdout[-800:]}"); continue
            if "build failed" in with_change.stdout or "[build failed]" in with_change.stdout:
                print(f"{sid}: REJECTED demo does not build with the change:\n{with_change.stdout[-800:]}"); continue
        finally:
            if os.path.exists(dpath):
                os.remove(dpath)
            sh("git checkout -- . && git clean -fdq", cwd=wt)
        dst = os.path.join(VERIF, "seeded", sid)
        os.makedirs(dst, exist_ok=True)
        for f in ("patch.diff", "demo_test.go", "README.md"):
            if os.path.exists(f"{src}/{f}"):
                shutil.copy(f"{src}/{f}", f"{dst}/{f}")
        fails = [l for l in with_change.stdout.splitlines() if l.startswith("--- FAIL") or "panic:" in l or "fatal error" in l][:4]
        meta = {
            "property": prop,
            "origin": f"independent sub-agent seed{rnd}-{prop} (given only the property text" + (", one-line descriptions of the earlier seeded changes for this property" if rnd else "") + f" and a scratch worktree), change {x}",
            "files_touched": touched,
            "needs": "see README.md (what is needed for the change to manifest)",
            "ran": [
                f"git apply patch.diff on a clean checkout of /repo HEAD {head[:7]} in a scratch worktree",
                "go build ./... && go test -vet=off -count=1 ./...  -> pass (suite unaffected)",
                f"demo in ./{ddir}: with the change -> FAIL ({'; '.join(fails)[:300]}); without -> pass",
            ],
        }
        json.dump(meta, open(f"{dst}/meta.json", "w"), indent=1)
        print(f"{sid}: kept -> {dst}  touched={touched}")


if __name__ == "__main__":
    main()
