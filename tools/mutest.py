#!/usr/bin/env python3
"""Sensitivity tester: applies small source edits to /repo one at a time, confirms that the
repo's own suite still passes, runs the named checks (quick tier) and reports which of them
raise a violation. /repo is restored after every mutant (git checkout -- .).

  tools/mutest.py [name-substring ...]
"""
import json, os, subprocess, sys, time

VERIF = os.path.dirname(os.path.dirname(os.path.abspath(__file__)))
REPO = os.environ.get("VERIF_REPO", "/repo")
ENV = dict(os.environ, GOPROXY="off", GOSUMDB="off", GOTOOLCHAIN="local")

MUTANTS = json.load(open(os.path.join(VERIF, "tools", "mutants.json")))


def sh(cmd, **kw):
    return subprocess.run(cmd, shell=True, stdout=subprocess.PIPE, stderr=subprocess.STDOUT, text=True, env=ENV, **kw)


def restore():
    sh(f"git -C {REPO} checkout -- . && git -C {REPO} clean -fdq")


def main():
    sel = sys.argv[1:]
    assert sh(f"git -C {REPO} status --porcelain").stdout.strip() == "", "/repo is dirty"
    rows = []
    for m in MUTANTS:
        if sel and not any(s in m["name"] for s in sel):
            continue
        path = os.path.join(REPO, m["file"])
        src = open(path).read()
        if src.count(m["old"]) != 1:
            print(f"{m['name']}: pattern occurs {src.count(m['old'])} times - skipped")
            continue
        try:
            open(path, "w").write(src.replace(m["old"], m["new"]))
            suite = sh(f"cd {REPO} && go build ./... && go test -vet=off -count=1 ./...")
            suite_ok = suite.returncode == 0
            res = {}
            for p in m["props"]:
                t0 = time.time()
                r = sh(f"python3 {VERIF}/vcheck.py {p} --tier quick")
                res[p] = {0: "silent", 1: "VIOLATION", 2: "inconclusive"}.get(r.returncode, str(r.returncode)) + f" ({time.time()-t0:.0f}s)"
                if r.returncode == 1:
                    line = [l for l in r.stdout.splitlines() if l.startswith("  ")]
                    if line:
                        res[p] += " :: " + line[0].strip()[:160]
            rows.append((m["name"], suite_ok, res))
            print(f"{m['name']}: suite={'pass' if suite_ok else 'FAIL'} {res}", flush=True)
        finally:
            restore()
    # evidence files were rewritten by mutant runs; remind the caller
    print("NOTE: evidence/*.json now reflect mutant runs; re-run the checks on the clean tree before committing evidence.")


if __name__ == "__main__":
    main()
