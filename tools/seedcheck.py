#!/usr/bin/env python3
"""Runs the quick checks against every kept seeded change under /verif/seeded/<id>/.

For each <id>: git -C /repo apply patch.diff; repo suite; checks named in meta.json
("property" plus optional "also"); git -C /repo checkout -- . ; results are written to
/verif/seeded/RESULTS.json and printed. /repo must be clean before and is clean after.

  tools/seedcheck.py [id-substring ...] [--tier quick|thorough] [--all-checks]
"""
import json, os, subprocess, sys, time

VERIF = os.path.dirname(os.path.dirname(os.path.abspath(__file__)))
REPO = os.environ.get("VERIF_REPO", "/repo")
ENV = dict(os.environ, GOPROXY="off", GOSUMDB="off", GOTOOLCHAIN="local")


def sh(cmd):
    return subprocess.run(cmd, shell=True, stdout=subprocess.PIPE, stderr=subprocess.STDOUT, text=True, env=ENV)


def restore():
    sh(f"git -C {REPO} checkout -- . && git -C {REPO} clean -fdq")


def main():
    args = [a for a in sys.argv[1:] if not a.startswith("--")]
    tier = "quick"
    if "--tier" in sys.argv:
        tier = sys.argv[sys.argv.index("--tier") + 1]
        args = [a for a in args if a != tier]
    allchecks = "--all-checks" in sys.argv
    assert sh(f"git -C {REPO} status --porcelain").stdout.strip() == "", "/repo is dirty"
    sd = os.path.join(VERIF, "seeded")
    resp = os.path.join(sd, "RESULTS.json")
    results = json.load(open(resp)) if os.path.exists(resp) else {}
    allprops = [json.loads(l)["id"] for l in open(os.path.join(VERIF, "properties.jsonl")) if l.strip()]
    for sid in sorted(os.listdir(sd)):
        d = os.path.join(sd, sid)
        if not os.path.isdir(d) or not os.path.exists(os.path.join(d, "patch.diff")):
            continue
        if args and not any(a in sid for a in args):
            continue
        meta = json.load(open(os.path.join(d, "meta.json")))
        props = [meta["property"]] + meta.get("also", [])
        if allchecks:
            props = allprops
        try:
            ap = sh(f"git -C {REPO} apply {d}/patch.diff")
            if ap.returncode != 0:
                print(f"{sid}: patch does not apply: {ap.stdout.strip()[:300]}")
                results[sid] = {"error": "patch does not apply"}
                continue
            suite = sh(f"cd {REPO} && go build ./... && go test -vet=off -count=1 ./...")
            res = {}
            for p in props:
                t0 = time.time()
                r = sh(f"python3 {VERIF}/vcheck.py {p} --tier {tier}")
                verdict = {0: "silent", 1: "VIOLATION", 2: "inconclusive"}.get(r.returncode, str(r.returncode))
                detail = ""
                entry = {"verdict": verdict, "wall_s": round(time.time() - t0, 1)}
                if r.returncode == 1:
                    lines = [l for l in r.stdout.splitlines() if l.startswith("  ")]
                    detail = lines[0].strip()[:200] if lines else ""
                    vl = [l for l in r.stdout.splitlines() if l.startswith("VIOLATION ")]
                    if vl and "replay=" in vl[-1] and "--no-replay" not in sys.argv:
                        rp = vl[-1].split("replay=")[1].strip()
                        rr = sh(f"python3 {VERIF}/vcheck.py {p} --replay {rp}")
                        entry["replay_reproduces_on_changed_tree"] = rr.returncode == 1
                entry["detail"] = detail
                res[p] = entry
            results[sid] = {"property": meta["property"], "suite_passes": suite.returncode == 0, "tier": tier, "checks": res}
            caught = [p for p, v in res.items() if v["verdict"] == "VIOLATION"]
            print(f"{sid}: suite={'pass' if suite.returncode == 0 else 'FAIL'} caught_by={caught or 'NONE'} " + " ".join(f"{p}:{v['verdict']}({v['wall_s']}s{'' if 'replay_reproduces_on_changed_tree' not in v else ',replay=' + ('ok' if v['replay_reproduces_on_changed_tree'] else 'NO')})" for p, v in res.items()), flush=True)
        finally:
            restore()
    json.dump(results, open(resp, "w"), indent=1, sort_keys=True)
    print("NOTE: evidence/*.json now reflect runs on modified trees; re-run checks on the clean tree before committing evidence.")


if __name__ == "__main__":
    main()
