#!/usr/bin/env python3
"""Driver: one invocation = one property, one tier.

  vcheck.py <ID> [--tier quick|thorough] [--replay FILE] [--sub NAME] [--keep]

Stages a copy of /repo's *working tree* outside /repo and /verif, injects the harness
(build tag `verif`), builds one test binary, runs it in shards, merges the statistics the
harness measured into /verif/evidence/<ID>.json and reports

  exit 0  property held on everything explored (KNOWN-FINDING lines may be printed)
  exit 1  VIOLATION property=<ID> replay=<path>
  exit 2  inconclusive (build failure, timeout, worker death) - never a violation
"""
import argparse
import array
import atexit
import hashlib
import json
import os
import shutil
import signal
import subprocess
import sys
import tempfile
import time

VERIF = os.path.dirname(os.path.abspath(__file__))
REPO = os.environ.get("VERIF_REPO", "/repo")
sys.path.insert(0, VERIF)
from props import PROPS  # noqa: E402

RAPID_REQ = "\nrequire pgregory.net/rapid v1.3.0\n"
RAPID_SUM = (
    "pgregory.net/rapid v1.3.0 h1:vBvO0VSqti75J1jjYqpgPNBLKMd1+gxa9fYo7vk/Exc=\n"
    "pgregory.net/rapid v1.3.0/go.mod h1:dPlE4OBBxgXPqkP79flB6sJL1dx5azpI7HQ9MY9Z7uk=\n"
)

_stage = None
_keep = False
_children = []


def cleanup():
    for p in _children:
        try:
            p.kill()
        except Exception:
            pass
    if _stage and not _keep:
        shutil.rmtree(_stage, ignore_errors=True)


def on_signal(signum, frame):
    cleanup()
    sys.exit(2)


def goenv():
    e = dict(os.environ)
    e.update(GOFLAGS="-mod=mod", GOPROXY="off", GOSUMDB="off", GOTOOLCHAIN="local")
    e.setdefault("GOCACHE", os.path.expanduser("~/.cache/go-build"))
    return e


def stage_repo(stage):
    def ignore(d, names):
        out = [n for n in names if n == ".git" or n.endswith("_test.go")]
        # testdata of the repo is not needed (seed snapshot lives in /verif/corpus)
        if os.path.abspath(d) == os.path.abspath(REPO) and "testdata" in names:
            out.append("testdata")
        return out

    shutil.copytree(REPO, stage, ignore=ignore, symlinks=True)
    write_dict(stage)
    hdir = os.path.join(VERIF, "harness", "root")
    for n in sorted(os.listdir(hdir)):
        if n.endswith(".go"):
            shutil.copy(os.path.join(hdir, n), os.path.join(stage, n))
    with open(os.path.join(stage, "go.mod"), "a") as f:
        f.write(RAPID_REQ)
    with open(os.path.join(stage, "go.sum"), "a") as f:
        f.write("\n" + RAPID_SUM)


_GO_ESC = {"n": 10, "t": 9, "r": 13, "a": 7, "b": 8, "f": 12, "v": 11, "\\": 92, '"': 34, "'": 39}


def _go_unquote(body):
    out = bytearray()
    i = 0
    while i < len(body):
        c = body[i]
        if c != "\\":
            out += c.encode("utf-8")
            i += 1
            continue
        e = body[i + 1]
        if e == "x":
            out.append(int(body[i + 2:i + 4], 16)); i += 4
        elif e == "u":
            out += chr(int(body[i + 2:i + 6], 16)).encode("utf-8", "replace"); i += 6
        elif e == "U":
            out += chr(int(body[i + 2:i + 10], 16)).encode("utf-8", "replace"); i += 10
        elif e in "01234567":
            out.append(int(body[i + 1:i + 4], 8) & 255); i += 4
        else:
            out.append(_GO_ESC.get(e, ord(e) & 255)); i += 2
    return bytes(out)


def source_literals(stage):
    """Every string, rune-free byte-slice and raw-string literal (2..64 bytes) of the tree under
    test: the dictionary the generators splice into names, keys, values, contents and text, the
    way fuzzers use a dictionary of the target's magic values."""
    import re
    lits = {}
    for root, _, files in os.walk(stage):
        for n in sorted(files):
            if not n.endswith(".go") or n.endswith("_test.go") or n.startswith("zz_verif"):
                continue
            try:
                src = open(os.path.join(root, n), encoding="utf-8", errors="replace").read()
            except OSError:
                continue
            src = re.sub(r"(?m)^\s*//.*$", "", src)
            for m in re.finditer(r'"((?:[^"\\\n]|\\.)*)"|`([^`]*)`', src):
                try:
                    b = _go_unquote(m.group(1)) if m.group(1) is not None else m.group(2).encode("utf-8")
                except Exception:
                    continue
                if 2 <= len(b) <= 64:
                    lits[b] = 1
            for m in re.finditer(r"\[\]byte\{([^{}]*)\}", src):
                vals = []
                for tok in m.group(1).replace("\n", " ").split(","):
                    tok = tok.strip()
                    if not tok:
                        continue
                    try:
                        if tok.startswith("'") and tok.endswith("'") and len(tok) >= 3:
                            vals += list(_go_unquote(tok[1:-1]))
                        else:
                            vals.append(int(tok, 0) & 255)
                    except Exception:
                        vals = None
                        break
                if vals and 2 <= len(vals) <= 64:
                    lits[bytes(vals)] = 1
    return sorted(lits)[:4000]


_env_like = None


def env_like_literals(stage):
    global _env_like
    if _env_like is None:
        import re
        _env_like = [b.decode() for b in source_literals(stage) if re.fullmatch(rb"[A-Z][A-Z0-9]*(_[A-Z0-9]+)+", b) and len(b) >= 6]
    return _env_like


def write_dict(stage):
    lits = source_literals(stage)
    with open(os.path.join(stage, "zz_verif_dict_test.go"), "w") as f:
        f.write("//go:build verif\n\npackage mimetype\n\n// generated by vcheck.py from the literals of the tree under test\nvar vfDictLits = []string{\n")
        for b in lits:
            f.write('\t"' + "".join("\\x%02x" % c for c in b) + '",\n')
        f.write("}\n")


def build(stage, race, fuzz):
    cmd = ["go", "test", "-c", "-tags", "verif", "-vet=off", "-o", os.path.join(stage, "verif.test")]
    if race:
        cmd.insert(3, "-race")
    if fuzz:
        cmd.insert(3, "-fuzz=" + fuzz)
    cmd.append(".")
    p = subprocess.run(cmd, cwd=stage, env=goenv(), stdout=subprocess.PIPE, stderr=subprocess.STDOUT, text=True)
    return p.returncode, p.stdout


def inconclusive(pid, why, detail=""):
    print(f"INCONCLUSIVE property={pid} {why}")
    if detail:
        print(detail[-6000:])
    sys.exit(2)


def save_replay(pid, src):
    d = os.path.join(VERIF, "replays", pid)
    os.makedirs(d, exist_ok=True)
    data = open(src, "rb").read()
    h = hashlib.sha1(data).hexdigest()[:12]
    try:
        sub = json.loads(data).get("sub", "case")
    except Exception:
        sub = "case"
    dst = os.path.join(d, f"{sub}-{h}.json")
    with open(dst, "wb") as f:
        f.write(data)
    return dst


def main():
    global _stage, _keep
    ap = argparse.ArgumentParser()
    ap.add_argument("prop")
    ap.add_argument("--tier", default=os.environ.get("VERIF_TIER", "quick"), choices=["quick", "thorough"])
    ap.add_argument("--replay")
    ap.add_argument("--sub")
    ap.add_argument("--keep", action="store_true")
    ap.add_argument("--shards", type=int)
    ap.add_argument("--no-fuzz", action="store_true")
    ap.add_argument("--fuzz-only", action="store_true", help="development aid: skip the generated sub-checks, run only the native fuzz campaign")
    a = ap.parse_args()
    pid = a.prop
    if pid not in PROPS:
        print("unknown property", pid)
        sys.exit(2)
    cfg = PROPS[pid]
    tier = a.tier
    if a.fuzz_only:
        tier, a.sub = "thorough", "__none__"
    global _partial_run
    _partial_run = bool(a.sub)
    try:
        seed = int(os.environ.get("VERIF_SEED", "1"))
    except ValueError:
        seed = 1
    _keep = a.keep
    t0 = time.time()

    signal.signal(signal.SIGTERM, on_signal)
    signal.signal(signal.SIGINT, on_signal)
    atexit.register(cleanup)
    tmpbase = os.environ.get("VERIF_TMP") or tempfile.gettempdir()
    _stage = tempfile.mkdtemp(prefix=f"vf-{pid}-", dir=tmpbase)
    stage = os.path.join(_stage, "src")
    stage_repo(stage)

    race = bool(cfg.get("race"))
    rc, out = build(stage, race, None)
    if rc != 0:
        inconclusive(pid, "harness does not build against the current tree", out)

    test = "^" + cfg.get("test", "TestVerif_" + pid) + "$"
    nsh = a.shards or cfg["shards"][tier]
    if a.replay:
        nsh = 1
    timeout = cfg.get("timeout", {"quick": 900, "thorough": 7200})[tier]
    procs = []
    for i in range(nsh):
        rd = os.path.join(_stage, f"run{i}")
        os.makedirs(rd)
        env = goenv()
        env.update(
            VERIF_OUT=os.path.join(rd, "stats.json"),
            VERIF_TIER=tier,
            VERIF_SHARD=str(i),
            VERIF_NSHARDS=str(nsh),
            VERIF_SEED=str(seed),
            VERIF_DIR=VERIF,
            VERIF_STAGE=_stage,
            VERIF_TESTBIN=os.path.join(stage, "verif.test"),
        )
        if race:
            env["GORACE"] = "halt_on_error=1 exitcode=66 log_path=" + os.path.join(rd, "race")
        # literals of the tree under test that look like environment variable names: odd shards run
        # with every one of them set to "0", shards = 2 mod 4 with "1" (a knob read from the
        # environment must not move what the property fixes); the built-in tree has none that matter
        if i % 2 == 1 or i % 4 == 2:
            for name in env_like_literals(stage):
                if name not in env:
                    env[name] = "0" if i % 2 == 1 else "1"
        if a.replay:
            env["VERIF_REPLAY"] = os.path.abspath(a.replay)
        if a.sub:
            env["VERIF_SUB"] = a.sub
        log = open(os.path.join(rd, "log"), "w")
        cmd = [os.path.join(stage, "verif.test"), "-test.run", test, "-test.count=1", f"-test.timeout={timeout}s", "-test.v"]
        p = subprocess.Popen(cmd, cwd=rd, env=env, stdout=log, stderr=subprocess.STDOUT)
        _children.append(p)
        procs.append((i, rd, p, log))

    deadline = t0 + timeout + 60
    results = []
    for i, rd, p, log in procs:
        try:
            rc = p.wait(timeout=max(1, deadline - time.time()))
        except subprocess.TimeoutExpired:
            p.kill()
            rc = -9
        log.close()
        results.append((i, rd, rc))

    # ---- optional native fuzzing phase (thorough only; not reproducible from a seed)
    fuzz_info = None
    fuzz_fail = None
    if tier == "thorough" and cfg.get("fuzz") and not a.replay and not a.no_fuzz and all(rc == 0 for _, _, rc in results):
        fuzz_info, fuzz_fail = run_fuzz(pid, cfg, stage, seed)

    # ---- collect
    fails, logs_bad, races = [], [], []
    for i, rd, rc in results:
        for n in sorted(os.listdir(rd)):
            if ".fail." in n and n.endswith(".json"):
                fails.append(os.path.join(rd, n))
            if n.startswith("race."):
                races.append(os.path.join(rd, n))
        if rc != 0:
            logs_bad.append((i, rd, rc))
    if fuzz_fail:
        fails.append(fuzz_fail)

    merged = merge_stats([rd for _, rd, _ in results])
    known = sorted(set(merged["known"]))
    wall = time.time() - t0

    violation = None
    if fails:
        # smallest failing case first
        fails.sort(key=lambda f: os.path.getsize(f))
        violation = save_replay(pid, fails[0])
    elif races:
        # a race report without a failing case file: wrap the report into a replay file
        rep = open(races[0]).read()
        tmp = os.path.join(_stage, "race.fail.json")
        doc = {"property": pid, "sub": "race-report", "case": None, "error": rep[:20000]}
        j = os.path.join(os.path.dirname(races[0]), "stats.json.journal.json")
        if os.path.exists(j):
            try:
                jd = json.load(open(j))
                doc["sub"], doc["case"] = jd.get("sub", "race-report"), jd.get("case")
                doc["error"] = "race detector report while running this program:\n" + rep[:20000]
            except Exception:
                pass
        json.dump(doc, open(tmp, "w"), indent=1)
        violation = save_replay(pid, tmp)

    if a.replay:
        if violation or logs_bad:
            if not violation:
                i, rd, rc = logs_bad[0]
                txt = open(os.path.join(rd, "log")).read()
                fatal = any(k in txt for k in ("fatal error:", "goroutine stack exceeds", "WARNING: DATA RACE", "unexpected signal"))
                if "REPLAY-FAILS" not in txt and not (fatal and "test timed out" not in txt) and not races:
                    inconclusive(pid, f"replay run died rc={rc}", txt)
            print(f"VIOLATION property={pid} replay={os.path.abspath(a.replay)}")
            sys.exit(1)
        print(f"REPLAY-PASSES property={pid}")
        sys.exit(0)

    if not violation and logs_bad and not a.replay:
        # a shard that died of a fatal runtime error (stack overflow, unrecovered panic in another
        # goroutine, signal) leaves its journal: the case it was executing is the replay file
        for i, rd, rc in logs_bad:
            txt = open(os.path.join(rd, "log")).read()
            j = os.path.join(rd, "stats.json.journal.json")
            fatal = any(k in txt for k in ("fatal error:", "panic:", "SIGSEGV", "SIGBUS", "unexpected signal", "goroutine stack exceeds"))
            if fatal and "test timed out" not in txt and os.path.exists(j) and cfg.get("journal_is_violation"):
                try:
                    d = json.load(open(j))
                    k = min([txt.find(m) for m in ("fatal error:", "runtime: goroutine stack exceeds", "panic:", "unexpected signal") if m in txt] or [max(0, len(txt) - 3000)])
                    d["error"] = "process died while running this case:\n" + txt[max(0, k - 200):k + 2500]
                    json.dump(d, open(j, "w"), indent=1)
                except Exception:
                    pass
                violation = save_replay(pid, j)
                break

    if not violation and logs_bad:
        i, rd, rc = logs_bad[0]
        txt = open(os.path.join(rd, "log")).read()
        why = f"shard {i} exited rc={rc} without a failing case"
        j = os.path.join(rd, "stats.json.journal.json")
        if os.path.exists(j):
            why += " (last journaled case: " + open(j).read()[:1500] + ")"
        if "test timed out" in txt or rc == -9:
            why = f"shard {i} hit the time budget"
        write_evidence(pid, cfg, tier, seed, merged, wall, 0, fuzz_info, note="INCONCLUSIVE: " + why)
        inconclusive(pid, why, txt)

    for k in known:
        print(k)
    write_evidence(pid, cfg, tier, seed, merged, wall, 1 if violation else 0, fuzz_info)
    if violation:
        try:
            err = json.load(open(violation)).get("error", "")
            print("  " + err[:2000].replace("\n", "\n  "))
        except Exception:
            pass
        print(f"VIOLATION property={pid} replay={violation}")
        sys.exit(1)

    floor = cfg.get("floor", {}).get(tier, 2)
    if merged["distinct_nontrivial"] < floor and not a.fuzz_only:
        inconclusive(pid, f"generator produced only {merged['distinct_nontrivial']} distinct non-trivial cases (< {floor})")
    print(
        f"OK property={pid} tier={tier} seed={seed} evaluations={merged['evaluations']} "
        f"distinct_nontrivial={merged['distinct_nontrivial']} wall={wall:.1f}s"
    )
    sys.exit(0)


def run_fuzz(pid, cfg, stage, seed):
    """Bounded coverage-guided campaign on the same oracle. The binary is rebuilt with fuzz
    instrumentation; a crasher's case file (written by the harness) becomes the replay."""
    fz = cfg["fuzz"]
    rc, out = build(stage, False, fz["target"])
    if rc != 0:
        return {"target": fz["target"], "status": "build failed"}, None
    rd = os.path.join(_stage, "fuzz")
    os.makedirs(rd, exist_ok=True)
    env = goenv()
    env.update(VERIF_OUT=os.path.join(rd, "stats.json"), VERIF_TIER="thorough", VERIF_DIR=VERIF, VERIF_SEED=str(seed), VERIF_FUZZ="1")
    secs = int(os.environ.get("VERIF_FUZZTIME", fz.get("seconds", 120)))
    cmd = [
        os.path.join(stage, "verif.test"), "-test.run", "^$", "-test.fuzz", "^" + fz["target"] + "$",
        f"-test.fuzztime={secs}s", "-test.fuzzcachedir", os.path.join(rd, "cache"), "-test.parallel", str(fz.get("workers", 16)),
        f"-test.timeout={secs + 600}s",
    ]
    log = os.path.join(rd, "log")
    with open(log, "w") as lf:
        p = subprocess.Popen(cmd, cwd=stage, env=env, stdout=lf, stderr=subprocess.STDOUT)
        _children.append(p)
        try:
            rc = p.wait(timeout=secs + 900)
        except subprocess.TimeoutExpired:
            p.kill()
            rc = -9
    txt = open(log).read()
    execs = 0
    for line in txt.splitlines():
        if "execs:" in line:
            try:
                execs = int(line.split("execs:")[1].split()[0])
            except Exception:
                pass
    info = {"target": fz["target"], "seconds": secs, "execs": execs, "exit": rc, "reproducible_from_seed": False}
    fail = None
    for n in sorted(os.listdir(rd)):
        if ".fail." in n and n.endswith(".json"):
            fail = os.path.join(rd, n)
    if rc != 0 and not fail:
        if rc == -9 or "context deadline exceeded" in txt:
            info["status"] = "timeout (inconclusive)"
        else:
            # crasher without a case file (e.g. fatal error in a worker): wrap the log
            fail = os.path.join(rd, "crash.fail.fuzz.json")
            json.dump({"property": pid, "sub": "fuzz-crash", "case": None, "error": txt[-8000:]}, open(fail, "w"), indent=1)
    return info, fail


def merge_stats(rundirs):
    ev = nt = dc = 0
    labels, excluded, subchecks = {}, {}, {}
    samples, known, notes = [], [], []
    hashes = set()
    capped = False
    exhaustive = None
    for rd in rundirs:
        sp = os.path.join(rd, "stats.json")
        if not os.path.exists(sp):
            continue
        s = json.load(open(sp))
        ev += s.get("evaluations", 0)
        nt += s.get("nontrivial", 0)
        dc += s.get("distinct_counted", 0)
        capped = capped or s.get("capped", False)
        if "exhaustive" in s:
            exhaustive = s["exhaustive"] if exhaustive is None else (exhaustive and s["exhaustive"])
        for k, v in (s.get("labels") or {}).items():
            labels[k] = labels.get(k, 0) + v
        for k, v in (s.get("excluded") or {}).items():
            excluded[k] = excluded.get(k, 0) + v
        for k, v in (s.get("subchecks") or {}).items():
            subchecks.setdefault(k, []).append(v)
        samples.extend(s.get("samples") or [])
        known.extend(s.get("known") or [])
        notes.extend(s.get("notes") or [])
        hp = sp + ".hashes"
        if os.path.exists(hp):
            arr = array.array("Q")
            data = open(hp, "rb").read()
            arr.frombytes(data[: len(data) // 8 * 8])
            hashes.update(arr)
    # keep at most 12 samples, spread across shards
    if len(samples) > 12:
        step = len(samples) / 12.0
        samples = [samples[int(i * step)] for i in range(12)]
    return dict(
        evaluations=ev, nontrivial=nt, distinct_nontrivial=len(hashes) + dc, capped=capped, exhaustive=bool(exhaustive),
        labels=labels, excluded=excluded, subchecks={k: (v[0] if len(set(v)) == 1 else v) for k, v in subchecks.items()},
        samples=samples, known=known, notes=sorted(set(notes)),
    )


_partial_run = False  # --sub / --fuzz-only: a development run of a part of the check; its numbers are not evidence


def write_evidence(pid, cfg, tier, seed, m, wall, violations, fuzz_info, note=None):
    if _partial_run:
        return
    rule = cfg["rule"]
    if m["capped"]:
        rule += " | distinct_nontrivial is a LOWER BOUND: each shard stops remembering case hashes after 120000 entries; hash sets of all shards are unioned."
    cov = dict(
        evaluations=m["evaluations"],
        distinct_nontrivial=m["distinct_nontrivial"],
        nontrivial_total=m["nontrivial"],
        rule=rule,
        samples=m["samples"] or ["(no non-trivial sample kept)"],
        labels=m["labels"],
        excluded_by_construction=m["excluded"],
        subchecks=m["subchecks"],
        exhaustive=bool(m["exhaustive"]),
        known_findings_reported=sorted(set(m["known"])),
        notes=m["notes"] + ([note] if note else []),
    )
    if fuzz_info:
        cov["native_fuzz"] = fuzz_info
    ev = dict(
        property_id=pid, tier=tier, seed=seed, level=cfg.get("level", "exploration"), coverage=cov,
        assumptions=cfg.get("assumptions", []), wall_s=round(wall, 2), violations=violations,
    )
    os.makedirs(os.path.join(VERIF, "evidence"), exist_ok=True)
    tmp = os.path.join(VERIF, "evidence", f".{pid}.json.tmp")
    with open(tmp, "w") as f:
        json.dump(ev, f, indent=1, sort_keys=False)
        f.write("\n")
    os.replace(tmp, os.path.join(VERIF, "evidence", f"{pid}.json"))


if __name__ == "__main__":
    main()
